"""C16 — regridding puts the right source value at each target location.

Correspondence: pairs of REAL grids (UniformGrid, RectilinearGrid, EsriGrid, UnstructuredGrid with
cell or point data, UnstructuredPoints) in 1-3 D in every layout (order, axes_reversed,
axes_increase, data location), with masks on either side, are connected by a real
`Output >> RegridNearest/RegridLinear >> Input` link (bare slots: ping / push_info / exchange_info /
push_data / pull_data; or inside a Composition with CallbackGenerator and DebugConsumer).  The
delivered array is read back element by element.

The locations of the data elements are computed by the harness itself from the constructor
arguments (axes, flags, node lists) with exact Fractions - not taken from the implementation - and
are handed to the Coq model Regrid (source points / values / mask in the source grid's flattening
order, target points in the target grid's order).  Coq evaluates the model with the computable
first-argmin oracle and compares tie-tolerantly (any source at minimal distance is accepted).
For linear cases the scipy oracle's answers on that case (definedness, values) come from an
independent LinearNDInterpolator run of the harness; for affine fields Coq computes the exact value
of the field at the target point itself.  The oracle hypotheses used by the theorems (KDTree
returns an index of minimal distance; LinearNDInterpolator reproduces affine fields, is defined
exactly on the closed convex hull, definedness does not depend on the values) are checked against
scipy with exact arithmetic on the same cases and counted in the evidence.
"""
import itertools
from fractions import Fraction

import numpy as np

from ..coqgen import B, C, L, N, NONE, P, Q, Some
from ..fin import fm, T, D, err_class

ID = "C16"
COQ_IMPORTS = "From FV Require Import Base Arr Regrid."
COQ_CHECK = "c16_check"
COQ_MODEL_OBS = "c16_model"
RULE = (
    "random pairs of source/target grids of equal dimension 1-3 (uniform, rectilinear with irregular dyadic axes, "
    "Esri, unstructured with mixed cells / with point data, unstructured points; <= 60 data elements per side) in "
    "random layouts (order C/F, axes_reversed, axes_increase per axis, CELLS/POINTS), source mask FLEX / NONE / "
    "explicit bits (data pushed plain or as MaskedArray; garbage values under the mask), adapter out_mask "
    "None/FLEX/NONE/bits and target-info mask None/FLEX/NONE/bits (incl. conflicting ones), target grid given to the "
    "adapter or by the target's info; RegridNearest with location-identifying, repeated-value and random fields; "
    "'identity' pairs (target = another layout / class / permutation of the same located elements); RegridLinear "
    "(unstructured or masked source only, 2-3 D, never the structured RegularGridInterpolator path) with random "
    "affine fields (dyadic coefficients) and random fields, with and without fill_with_nearest; "
    "payload dtype: float64, or (whole-numbered fields: 30 % of them; 45 % of the affine linear cases get an "
    "integer-valued affine field whose interpolants at the targets are mostly not whole numbers) int64/int32/int16, "
    "or float32 (7 %); "
    "publications: in 50 % of the linear+fill cases and 20 % of the other float64 cases the adapter first carries 1-2 EARLIER "
    "publications (other affine / random fields; the first one mostly with NaN at 1-3 unmasked source locations) "
    "and the case's field is the LAST publication through the same adapter; every finite publication is judged; "
    "'shifted' pairs: two structured grids (uniform / rectilinear / Esri, any layouts) of EQUAL dims and cell size "
    "(1/2..30) whose origins differ by whole cells and/or fractions of a cell, mostly at projected-coordinate "
    "magnitudes 1e5..1e7 (dyadic, exact), without explicit masks, RegridNearest; every case through "
    "bare slots or a Composition; in 40 % of the cases with a uniform/rectilinear side the grid OBJECT has a history: "
    "built with the other data location, used (data_points/data_shape/data_size read, or a complete judged "
    "preliminary regridding as source resp. target), then turned into the case's grid by copy()/copy(deep)+"
    "data_location setter or by the setter in place, or the same object serves two successive adapters; "
    "grid.data_points of the objects actually used is cross-checked against the computed locations after the whole "
    "sequence; a share of the masked cases is run twice with different values under the source "
    "mask.  non-trivial = data was delivered, >= 2 unmasked targets received >= 2 different source values, and a "
    "mask is present or a grid is unstructured or a layout flag differs from the default; distinct by canonical "
    "case hash"
)
TRUSTED = [
    "oracles of Regrid.v: scipy KDTree.query (hypothesis: returns an index of minimal Euclidean distance) and "
    "LinearNDInterpolator (hypotheses: affine fields reproduced where defined; defined exactly on the closed convex "
    "hull; definedness independent of the values) - checked against scipy with exact arithmetic on every case and "
    "counted in the evidence (oracle_*), not proved",
    "locations of data elements: computed by the harness from the constructor arguments (independent of "
    "grid.data_points, which is cross-checked on every case); flattening by numpy ravel in the grid's order",
    "IEEE rounding of the barycentric interpolation: compared with tolerance 2^-30 relative; coordinates and field "
    "coefficients are dyadic so that distances and affine field values are exact in binary64",
    "not modelled: coordinate reference systems (pyproj; crs=None throughout), the structured "
    "RegularGridInterpolator path of RegridLinear (broken with the installed scipy, excluded by the property text), "
    "1-D linear regridding of masked/unstructured sources (scipy refuses 1-D input with ValueError), sources "
    "without any unmasked element (IndexError in the implementation)",
]
ASSUMPTIONS = [
    "domain of the theorems: masks have the length of the point lists, at least one unmasked source element; "
    "linear: oracle hypotheses about the interpolator built on the unmasked source points",
    "values are exact rationals; tolerance 2^-30 relative only for interpolated (linear) values",
]
CASE_TIMEOUT = 60

TOL = Fraction(1, 2 ** 30)
F34 = Fraction(3, 4)


def fr(x):
    f = Fraction(x)
    return [f.numerator, f.denominator]


def fq(p):
    return Fraction(p[0], p[1])


# ---------------------------------------------------------------------------------------------
# grid descriptions and the harness's own location function
# ---------------------------------------------------------------------------------------------
def is_struct(g):
    return g["cls"] in ("uniform", "rect", "esri")


def norm(g):
    """structured description -> (increasing axes [xyz], inc flags, rev, loc, order)"""
    if g["cls"] == "uniform":
        axes = [[fq(g["origin"][k]) + i * fq(g["spacing"][k]) for i in range(n)] for k, n in enumerate(g["dims"])]
        return axes, list(g["inc"]), g["rev"], g["loc"], g["order"]
    if g["cls"] == "rect":
        axes = [[fq(x) for x in ax] for ax in g["axes"]]
        return axes, list(g["inc"]), g["rev"], g["loc"], g["order"]
    cs = fq(g["cs"])
    axes = [[fq(g["xll"]) + i * cs for i in range(g["ncols"] + 1)], [fq(g["yll"]) + i * cs for i in range(g["nrows"] + 1)]]
    return axes, [True, False], True, "CELLS", g["order"]


def data_shape(g):
    if is_struct(g):
        axes, _, rev, loc, _ = norm(g)
        n = [len(a) if loc == "POINTS" else max(len(a) - 1, 1) for a in axes]
        return n[::-1] if rev else n
    if g["cls"] == "upoints" or g["loc"] == "POINTS":
        return [len(g["points"])]
    return [len(g["cells"])]


def order_of(g):
    return g["order"]


def own_locs(g):
    """locations (tuples of Fractions) of the data elements, in C order over data_shape"""
    if is_struct(g):
        axes, inc, rev, loc, _ = norm(g)
        lax = [([(a + b) / 2 for a, b in zip(ax[:-1], ax[1:])] if len(ax) > 1 else ax) if loc == "CELLS" else ax
               for ax in axes]
        n = [len(a) for a in lax]
        shape = n[::-1] if rev else n
        out = []
        for idx in itertools.product(*[range(s) for s in shape]):
            i = idx[::-1] if rev else idx
            out.append(tuple(lax[k][i[k]] if inc[k] else lax[k][n[k] - 1 - i[k]] for k in range(len(n))))
        return out
    pts = [tuple(fq(x) for x in p) for p in g["points"]]
    if g["cls"] == "upoints" or g["loc"] == "POINTS":
        return pts
    out = []
    for cell, ct in zip(g["cells"], g["ctypes"]):
        nodes = cell[:NODE_COUNT[ct]]
        out.append(tuple(sum(pts[i][k] for i in nodes) / len(nodes) for k in range(len(pts[0]))))
    return out


NODE_COUNT = [1, 2, 3, 4, 4, 8]


def flat_pos(g):
    """C index of the element at every position of the grid's flattening order"""
    sh = data_shape(g)
    n = int(np.prod(sh))
    return [int(x) for x in np.ravel(np.arange(n).reshape(sh), order=order_of(g))]


def build_grid(g):
    loc = fm.Location.POINTS if g.get("loc") == "POINTS" else fm.Location.CELLS
    cls = g["cls"]
    if cls == "uniform":
        return fm.UniformGrid(dims=tuple(g["dims"]), spacing=tuple(float(fq(x)) for x in g["spacing"]),
                              origin=tuple(float(fq(x)) for x in g["origin"]), data_location=loc, order=g["order"],
                              axes_reversed=g["rev"], axes_increase=list(g["inc"]))
    if cls == "rect":
        axes = [np.array([float(fq(x)) for x in (ax if inc else ax[::-1])]) for ax, inc in zip(g["axes"], g["inc"])]
        return fm.RectilinearGrid(axes=axes, data_location=loc, order=g["order"], axes_reversed=g["rev"])
    if cls == "esri":
        return fm.EsriGrid(ncols=g["ncols"], nrows=g["nrows"], cellsize=float(fq(g["cs"])), xllcorner=float(fq(g["xll"])),
                           yllcorner=float(fq(g["yll"])), order=g["order"])
    pts = np.array([[float(fq(x)) for x in p] for p in g["points"]])
    if cls == "upoints":
        return fm.UnstructuredPoints(points=pts, order=g["order"])
    return fm.UnstructuredGrid(points=pts, cells=np.array(g["cells"], dtype=int), cell_types=np.array(g["ctypes"], dtype=int),
                               data_location=loc, order=g["order"])


def grid_dim(g):
    if is_struct(g):
        return len(norm(g)[0])
    return len(g["points"][0])


# ---------------------------------------------------------------------------------------------
# exact geometry
# ---------------------------------------------------------------------------------------------
def d2(p, q):
    return sum((a - b) * (a - b) for a, b in zip(p, q))


def affine_rank(pts):
    """affine rank of a list of points (exact)"""
    if not pts:
        return -1
    rows = [[a - b for a, b in zip(p, pts[0])] for p in pts[1:]]
    rank = 0
    ncol = len(pts[0])
    for c in range(ncol):
        piv = next((r for r in range(rank, len(rows)) if rows[r][c] != 0), None)
        if piv is None:
            continue
        rows[rank], rows[piv] = rows[piv], rows[rank]
        for r in range(len(rows)):
            if r != rank and rows[r][c] != 0:
                f = rows[r][c] / rows[rank][c]
                rows[r] = [a - f * b for a, b in zip(rows[r], rows[rank])]
        rank += 1
    return rank


def hull_planes(pts):
    """supporting hyperplanes (n, c) with n.x >= c for all points, for a full-dimensional point set in 2-D / 3-D
    (exact integers after scaling)"""
    d = len(pts[0])
    den = 1
    for p in pts:
        for x in p:
            den = den * x.denominator // np.gcd(den, x.denominator)
    den = int(den)
    P_ = np.array([[int(x * den) for x in p] for p in pts], dtype=np.int64)
    planes = []
    n = len(pts)
    if d == 2:
        for i, j in itertools.combinations(range(n), 2):
            e = P_[j] - P_[i]
            if not e.any():
                continue
            nrm = np.array([-e[1], e[0]], dtype=np.int64)
            s = (P_ - P_[i]) @ nrm
            if (s >= 0).all():
                planes.append((nrm, int(nrm @ P_[i])))
            elif (s <= 0).all():
                planes.append((-nrm, int(-nrm @ P_[i])))
    else:
        for i, j, k in itertools.combinations(range(n), 3):
            nrm = np.cross(P_[j] - P_[i], P_[k] - P_[i])
            if not nrm.any():
                continue
            s = (P_ - P_[i]) @ nrm
            if (s >= 0).all():
                planes.append((nrm, int(nrm @ P_[i])))
            elif (s <= 0).all():
                planes.append((-nrm, int(-nrm @ P_[i])))
    return den, planes


def in_hull(den, planes, p):
    # p may have a denominator that does not divide den: compare n.(p*den) >= c with Fractions
    v = [x * den for x in p]
    return all(sum(int(a) * b for a, b in zip(nrm, v)) >= c for nrm, c in planes)


# ---------------------------------------------------------------------------------------------
# generator
# ---------------------------------------------------------------------------------------------
MAXN = 60


def _gen_struct(rng, d, cls=None):
    cls = cls or rng.choice(["uniform", "rect", "rect"] + (["esri", "esri"] if d == 2 else []))
    hi = {1: 9, 2: 6, 3: 4}[d]
    while True:
        dims = [rng.randint(2, hi) for _ in range(d)]
        if int(np.prod(dims)) <= MAXN:
            break
    order = rng.choice("CF")
    if cls == "esri":
        return {"cls": "esri", "ncols": dims[0] - 1, "nrows": dims[1] - 1, "cs": fr(rng.choice([Fraction(1, 2), 1, Fraction(3, 2)])),
                "xll": fr(Fraction(rng.randint(-8, 4), 4)), "yll": fr(Fraction(rng.randint(-8, 4), 4)), "order": order}
    rev = rng.random() < 0.5
    inc = [rng.random() < 0.6 for _ in range(d)]
    loc = rng.choice(["CELLS", "POINTS"])
    if cls == "uniform":
        return {"cls": "uniform", "dims": dims, "spacing": [fr(rng.choice([Fraction(1, 2), 1, Fraction(3, 2), Fraction(3, 4)])) for _ in range(d)],
                "origin": [fr(Fraction(rng.randint(-10, 4), 4)) for _ in range(d)], "inc": inc, "order": order, "rev": rev, "loc": loc}
    axes = []
    for n in dims:
        x = Fraction(rng.randint(-10, 2), 4)
        ax = []
        for _ in range(n):
            ax.append(fr(x))
            x += rng.choice([Fraction(1, 4), Fraction(1, 2), 1, Fraction(3, 2)])
        axes.append(ax)
    return {"cls": "rect", "axes": axes, "inc": inc, "order": order, "rev": rev, "loc": loc}


def _gen_unstruct(rng, d, cls=None, minpts=None):
    cls = cls or rng.choice(["ucells", "ucells", "unodes", "upoints"])
    lo = max(d + 2, minpts or 0, 8 if (d == 3 and cls != "upoints") else 0)
    npts = rng.randint(lo, max(lo, {1: 10, 2: 16, 3: 14}[d]))
    seen = set()
    while len(seen) < npts:
        seen.add(tuple(F34 * rng.randint(-5, 5) for _ in range(d)))
    pts = list(seen)
    rng.shuffle(pts)
    g = {"cls": "upoints" if cls == "upoints" else "ugrid", "points": [[fr(x) for x in p] for p in pts], "order": rng.choice("CF")}
    if cls == "upoints":
        return g
    types = {1: [1], 2: [2, 3], 3: [4, 5]}[d]
    ncells = rng.randint(2, 14)
    cells, ctypes = [], []
    width = max(NODE_COUNT[t] for t in types)
    for _ in range(ncells):
        t = rng.choice(types)
        nodes = rng.sample(range(npts), NODE_COUNT[t])
        cells.append(nodes + [-1] * (width - len(nodes)))
        ctypes.append(t)
    g["cells"], g["ctypes"] = cells, ctypes
    g["loc"] = "CELLS" if cls == "ucells" else "POINTS"
    return g


def _gen_grid(rng, d, prefer=None):
    k = prefer or rng.choice(["s", "s", "s", "u", "u"])
    return _gen_struct(rng, d) if k == "s" else _gen_unstruct(rng, d)


def _relayout(rng, g):
    """another description of the same located elements"""
    if is_struct(g):
        axes, inc, rev, loc, order = norm(g)
        d = len(axes)
        if g["cls"] == "esri" or rng.random() < 0.6:
            h = {"cls": "rect", "axes": [[fr(x) for x in ax] for ax in axes]}
        else:
            h = dict(g)
        if g["cls"] == "uniform" and rng.random() < 0.3:
            h = {"cls": "uniform", "dims": g["dims"], "spacing": g["spacing"], "origin": g["origin"]}
        h.update({"inc": [rng.random() < 0.5 for _ in range(d)], "order": rng.choice("CF"), "rev": rng.random() < 0.5, "loc": loc})
        if rng.random() < 0.25:
            # the same locations as an unstructured point set, permuted
            locs = own_locs(g)
            rng.shuffle(locs)
            return {"cls": "upoints", "points": [[fr(x) for x in p] for p in locs], "order": rng.choice("CF")}
        return h
    locs = own_locs(g)
    rng.shuffle(locs)
    return {"cls": "upoints", "points": [[fr(x) for x in p] for p in locs], "order": rng.choice("CF")}


def _bits(rng, n, p):
    return [rng.random() < p for _ in range(n)]


def _mask_choice(rng, n, allow_unset=True):
    r = rng.random()
    if allow_unset and r < 0.3:
        return None
    if r < 0.5:
        return "flex"
    if r < 0.6:
        return "none"
    return _bits(rng, n, rng.choice([0.15, 0.3, 0.6]))


def _gen_case(rng, kind):
    if kind == "shifted":
        return _gen_shifted(rng)
    method = "linear" if kind.startswith("lin") else "nearest"
    d = rng.choice([2, 2, 3]) if method == "linear" else rng.choice([1, 2, 2, 3])
    for _attempt in range(50):
        if method == "linear":
            src = _gen_grid(rng, d, "u" if rng.random() < 0.6 else "s")
        else:
            src = _gen_grid(rng, d)
        ns = int(np.prod(data_shape(src)))
        # source mask
        if method == "linear" and is_struct(src):
            smask = _bits(rng, ns, rng.choice([0.0, 0.15, 0.3]))     # explicit bits: the unstructured path
        else:
            r = rng.random()
            smask = "flex" if r < 0.3 else ("none" if r < 0.4 else _bits(rng, ns, rng.choice([0.1, 0.3, 0.5])))
        slocs = own_locs(src)
        unm = [p for p, m in zip(slocs, smask if isinstance(smask, list) else [False] * ns) if not m]
        if not unm:
            continue
        if method == "linear" and affine_rank(unm) < d:
            continue
        break
    else:
        raise RuntimeError("no source")
    if kind == "identity":
        tgt = _relayout(rng, src)
    else:
        tgt = _gen_grid(rng, d)
    nt = int(np.prod(data_shape(tgt)))
    # values (C order over the source data shape)
    affine = None
    field = rng.choice(["id", "id", "rep", "rand"]) if method == "nearest" else ("affine" if kind != "linrand" else "rand")
    if field == "id":
        perm = list(range(1, ns + 1))
        rng.shuffle(perm)
        vals = [Fraction(v) for v in perm]
    elif field == "rep":
        vals = [Fraction(rng.randint(1, 4)) for _ in range(ns)]
    elif field == "rand":
        vals = [Fraction(rng.randint(-64, 64), 8) for _ in range(ns)]
    else:
        c0 = Fraction(rng.randint(-16, 16), 4)
        grad = [Fraction(rng.randint(-8, 8), 4) for _ in range(d)]
        affine = [fr(c0), [fr(a) for a in grad]]
        vals = [c0 + sum(a * x for a, x in zip(grad, p)) for p in slocs]
    # dtype of the pushed payload: integer-valued fields are (often) stored with an integer dtype
    dtype = None
    r = rng.random()
    if kind == "linaff" and r < 0.45:
        # integer-valued affine field on the source locations whose interpolants at the targets are mostly NOT whole
        # numbers (gradient = multiple of the source lattice's common denominator)
        den = 1
        for p in slocs:
            for x in p:
                den = den * x.denominator // int(np.gcd(den, x.denominator))
        c0i = Fraction(rng.randint(-20, 20))
        gradi = [Fraction(den * rng.choice([-3, -2, -1, 1, 2, 3])) for _ in range(d)]
        fi = lambda p: c0i + sum(a * x for a, x in zip(gradi, p))  # noqa: E731
        tl = own_locs(tgt)
        if 3 * sum(1 for p in tl if fi(p).denominator != 1) < len(tl) and kind != "identity":
            # target on a finer lattice around a source location
            q0 = rng.choice(unm)
            tdims = [rng.randint(2, {2: 5, 3: 3}[d]) for _ in range(d)]
            tgt = {"cls": "uniform", "dims": tdims, "spacing": [fr(Fraction(rng.choice([3, 5, 7, 9, 13]), 2 * den)) for _ in range(d)],
                   "origin": [fr(x - Fraction(rng.choice([1, 3, 5, 9]), 2 * den)) for x in q0], "inc": [rng.random() < 0.6 for _ in range(d)],
                   "order": rng.choice("CF"), "rev": rng.random() < 0.5, "loc": rng.choice(["CELLS", "POINTS"])}
            nt = int(np.prod(data_shape(tgt)))
            tl = own_locs(tgt)
        if 3 * sum(1 for p in tl if fi(p).denominator != 1) >= len(tl) and max(abs(fi(p)) for p in slocs) < 15000:
            affine = [fr(c0i), [fr(a) for a in gradi]]
            vals = [fi(p) for p in slocs]
            dtype = rng.choice(["int64", "int64", "int32", "int16"])
    if dtype is None and all(v.denominator == 1 for v in vals) and r < 0.3:
        dtype = rng.choice(["int64", "int32", "int16"])
    elif dtype is None and r > 0.93:
        dtype = "float32"
    if isinstance(smask, list):
        # garbage under the mask
        vals = [(Fraction(rng.choice([1000, -999, 12345]) + i) if m else v) for i, (v, m) in enumerate(zip(vals, smask))]
    src_ma = (rng.random() < 0.5) if isinstance(smask, list) else (rng.random() < 0.08)
    # target side masks
    r = rng.random()
    if r < 0.72:
        # consistent specification
        am = _mask_choice(rng, nt)
        if am is None:
            down = _mask_choice(rng, nt, allow_unset=False)
        elif isinstance(am, list):
            down = rng.choice([None, "flex", list(am)])
        elif am == "none":
            down = rng.choice([None, "flex", "none"])
        else:
            down = rng.choice([None, "flex"])
    else:
        am = _mask_choice(rng, nt)
        down = _mask_choice(rng, nt)
        if isinstance(am, list) and isinstance(down, list) and rng.random() < 0.5:
            down = list(am)
            if rng.random() < 0.5:
                k = rng.randrange(nt)
                down[k] = not down[k]
    reuse = None
    sides = [sd for sd, g in (("src", src), ("tgt", tgt)) if g["cls"] in ("uniform", "rect")]
    if sides and rng.random() < 0.4:
        pick = rng.choice([[sd] for sd in sides] + [sides])
        reuse = {"sides": pick, "mode": rng.choice(["copy", "copy", "inplace", "inplace", "deepcopy", "same"]),
                 "touch": rng.choice(["read", "regrid"])}
    # earlier publications through the same adapter (the case's own values are the LAST publication)
    history = None
    fill = (rng.random() < 0.5) if method == "linear" else False
    if (dtype in (None, "float32") or (method == "linear" and fill)) and \
            rng.random() < (0.5 if (method == "linear" and fill) else 0.2):
        dtype = None
        history = []
        unm_idx = [i for i in range(ns) if not (isinstance(smask, list) and smask[i])]
        for k in range(rng.choice([1, 1, 2])):
            if method == "linear" and (affine or rng.random() < 0.5):
                hc0 = Fraction(rng.randint(-16, 16), 4)
                hgrad = [Fraction(rng.randint(-8, 8), 4) for _ in range(d)]
                haff = [fr(hc0), [fr(a) for a in hgrad]]
                hv = [hc0 + sum(a * x for a, x in zip(hgrad, p)) for p in slocs]
            elif method == "linear":
                haff, hv = None, list(vals)
            else:
                haff, hv = None, [Fraction(rng.randint(1, 99)) for _ in range(ns)]
            if isinstance(smask, list):
                hv = [(vals[i] if smask[i] else hv[i]) for i in range(ns)]
            if (k == 0 and rng.random() < 0.7) or rng.random() < 0.2:
                # "not yet computed" elements: NaN at some unmasked (and possibly masked) source locations
                for i in rng.sample(unm_idx, min(len(unm_idx), rng.choice([1, 1, 2, 3]))):
                    hv[i] = None
                if isinstance(smask, list) and rng.random() < 0.3:
                    hv[rng.randrange(ns)] = None
            elif method == "linear" and haff is None:
                continue            # a finite non-affine earlier field could not be judged (no oracle table for it)
            history.append({"vals": [None if v is None else fr(v) for v in hv], "affine": haff})
        history = history or None
    return {"method": method, "fill": fill, "reuse": reuse, "history": history,
            "via": "comp" if rng.random() < 0.3 else "bare", "tgrid": rng.choice(["adapter", "adapter", "info", "both"]),
            "sgrid": rng.choice(["info", "info", "both"]),
            "src": src, "tgt": tgt, "smask": smask, "src_ma": src_ma, "svals": [fr(v) for v in vals], "am": am, "down": down,
            "affine": affine, "twin": isinstance(smask, list) and rng.random() < 0.5, "kind": kind, "dtype": dtype}


BIG_ORIGINS = [100000, 250000, 500000, 733000, 3400000, 5600000, 5812345, 9999000, 2 ** 20, 2 ** 23]
CELL_SIZES = [1, 1, 1, 2, 2, 5, 10, 30, Fraction(1, 2), Fraction(5, 2)]
CELL_SHIFTS = [0, 0, 1, 1, -1, 2, -2, 3, -3, Fraction(1, 2), Fraction(-1, 2), Fraction(1, 4), Fraction(3, 4), Fraction(3, 2),
               Fraction(-5, 4), Fraction(5, 2)]


def _gen_shifted(rng):
    """Two structured grids of EQUAL dims and cell size, the target shifted against the source by whole cells and/or
    fractions of a cell, mostly far from the origin (projected coordinates 1e5..1e7 with cell sizes 1/2..30, so that
    the shift is tiny RELATIVE to the coordinates but not relative to the cells), no explicit mask on either side,
    RegridNearest: any shortcut that takes 'nearly the same axes' for 'the same locations' delivers the same-index
    element instead of the Euclidean-nearest one.  Coordinates stay dyadic: exact in binary64 and in Q."""
    d = rng.choice([1, 2, 2, 2, 2, 3])
    hi = {1: 9, 2: 7, 3: 4}[d]
    while True:
        dims = [rng.randint(3 if d < 3 else 2, hi) for _ in range(d)]
        if int(np.prod(dims)) <= MAXN:
            break
    big = rng.random() < 0.85
    esri_ok = d == 2
    cls_s = rng.choice(["uniform", "rect"] + (["esri"] if esri_ok else []))
    cls_t = rng.choice(["uniform", "rect"] + (["esri"] if esri_ok else []))
    if "esri" in (cls_s, cls_t):
        c = Fraction(rng.choice(CELL_SIZES))
        cell = [c] * d
        loc = "CELLS"
    else:
        cell = [Fraction(rng.choice(CELL_SIZES)) for _ in range(d)]
        loc = rng.choice(["CELLS", "POINTS"])
    if big:
        org = [Fraction(rng.choice(BIG_ORIGINS)) + Fraction(rng.randint(0, 40), 4) for _ in range(d)]
    else:
        org = [Fraction(rng.randint(-12, 12), 4) for _ in range(d)]
    while True:
        sh = [Fraction(rng.choice(CELL_SHIFTS)) for _ in range(d)]
        if any(sh) or rng.random() < 0.1:
            break
    org_t = [o + k * c for o, k, c in zip(org, sh, cell)]

    def mk(cls, o):
        order = rng.choice("CF")
        if cls == "esri":
            return {"cls": "esri", "ncols": dims[0] - 1, "nrows": dims[1] - 1, "cs": fr(cell[0]), "xll": fr(o[0]), "yll": fr(o[1]),
                    "order": order}
        rev = rng.random() < 0.5
        inc = [rng.random() < 0.6 for _ in range(d)]
        if cls == "uniform":
            return {"cls": "uniform", "dims": list(dims), "spacing": [fr(c) for c in cell], "origin": [fr(x) for x in o],
                    "inc": inc, "order": order, "rev": rev, "loc": loc}
        return {"cls": "rect", "axes": [[fr(o[k] + i * cell[k]) for i in range(dims[k])] for k in range(d)], "inc": inc,
                "order": order, "rev": rev, "loc": loc}
    src, tgt = mk(cls_s, org), mk(cls_t, org_t)
    if rng.random() < 0.3:
        # same layout on both sides (the pass-through variant of such a shortcut)
        for k in ("order", "rev", "inc"):
            if k in src and k in tgt:
                tgt[k] = src[k]
    ns = int(np.prod(data_shape(src)))
    perm = list(range(1, ns + 1))
    rng.shuffle(perm)
    am, down = rng.choice([(None, "flex"), (None, "flex"), ("flex", "flex"), ("flex", None), (None, "none"), ("none", None),
                           ("none", "flex")])
    return {"method": "nearest", "fill": False, "reuse": None, "via": "comp" if rng.random() < 0.3 else "bare",
            "tgrid": rng.choice(["adapter", "adapter", "info", "both"]), "sgrid": rng.choice(["info", "info", "both"]),
            "src": src, "tgt": tgt, "smask": rng.choice(["flex", "flex", "none"]), "src_ma": False,
            "svals": [fr(v) for v in perm], "am": am, "down": down, "affine": None, "twin": False, "kind": "shifted",
            "dtype": rng.choice([None, None, "int64", "int32"])}


def _u(dims, **kw):
    g = {"cls": "uniform", "dims": dims, "spacing": [fr(1)] * len(dims), "origin": [fr(0)] * len(dims), "inc": [True] * len(dims),
         "order": "F", "rev": False, "loc": "POINTS"}
    g.update(kw)
    return g


def _case(src, tgt, **kw):
    ns = int(np.prod(data_shape(src)))
    c = {"method": "nearest", "fill": False, "via": "bare", "tgrid": "adapter", "sgrid": "info", "src": src, "tgt": tgt,
         "smask": "flex", "src_ma": False, "svals": [fr(i + 1) for i in range(ns)], "am": None, "down": "flex",
         "affine": None, "twin": False, "kind": "corpus", "reuse": None, "dtype": None, "history": None}
    c.update(kw)
    return c


CORPUS = [
    # the pair of the adapter docs / tests: cell data, default layout
    _case(_u([5, 4], loc="CELLS"), _u([3, 3], loc="CELLS", spacing=[fr(2), fr(Fraction(3, 2))])),
    # every layout flag differs between the two sides
    _case(_u([4, 3], order="F", rev=False, inc=[True, True]), _u([4, 3], order="C", rev=True, inc=[False, True]), kind="identity"),
    _case(_u([4, 3], order="C", rev=True, inc=[True, False], loc="CELLS"), _u([4, 3], order="F", rev=False, inc=[False, False], loc="CELLS"),
          kind="identity"),
    # Esri raster against the uniform grid with the same cells
    _case({"cls": "esri", "ncols": 3, "nrows": 2, "cs": fr(1), "xll": fr(0), "yll": fr(0), "order": "C"},
          _u([4, 3], loc="CELLS", order="F"), kind="identity"),
    _case(_u([4, 3], loc="CELLS", order="C", rev=True), {"cls": "esri", "ncols": 3, "nrows": 2, "cs": fr(1), "xll": fr(0), "yll": fr(0), "order": "F"},
          kind="identity", via="comp"),
    # masked source element exactly at a target location: the neighbour must be delivered
    _case(_u([3, 2]), _u([3, 2], order="C", rev=True), smask=[True, False, False, False, False, False], src_ma=True,
          svals=[fr(v) for v in [999, 2, 3, 4, 5, 6]], twin=True),
    # target masks: adapter bits, downstream bits, conflict
    _case(_u([3, 2]), _u([2, 2], spacing=[fr(Fraction(3, 2)), fr(1)]), am=[False, True, False, False], down=None),
    _case(_u([3, 2]), _u([2, 2], spacing=[fr(Fraction(3, 2)), fr(1)]), am=None, down=[False, True, False, False], via="comp"),
    _case(_u([3, 2]), _u([2, 2]), am=[False, True, False, False], down=[False, False, True, False]),
    _case(_u([3, 2]), _u([2, 2]), am="flex", down="none"),
    _case(_u([3, 2]), _u([2, 2]), am=None, down=None),
    _case(_u([3, 2]), _u([2, 2]), src_ma=True),
    # grid objects with a history (seeded/C16_d): a mesh delivers its cell field, then the node field on
    # mesh.copy() with data_location = POINTS (and the in-place / reverse / target-side variants)
    _case(_u([6, 5], spacing=[fr(2), fr(Fraction(3, 2))], origin=[fr(1), fr(-2)]),
          _u([8, 7], spacing=[fr(Fraction(5, 4)), fr(Fraction(7, 8))], origin=[fr(Fraction(1, 2)), fr(Fraction(-9, 4))]),
          via="comp", tgrid="info", reuse={"sides": ["src"], "mode": "copy", "touch": "regrid"}),
    _case(_u([6, 5], spacing=[fr(2), fr(Fraction(3, 2))], origin=[fr(1), fr(-2)]),
          _u([8, 7], spacing=[fr(Fraction(5, 4)), fr(Fraction(7, 8))], origin=[fr(Fraction(1, 2)), fr(Fraction(-9, 4))]),
          reuse={"sides": ["src"], "mode": "inplace", "touch": "read"}),
    _case(_u([4, 3], loc="CELLS", order="C", rev=True), _u([3, 3], spacing=[fr(Fraction(3, 2)), fr(1)], loc="CELLS"),
          reuse={"sides": ["src", "tgt"], "mode": "copy", "touch": "read"}),
    _case(_u([4, 3]), _u([3, 4], spacing=[fr(Fraction(3, 2)), fr(Fraction(3, 4))], loc="CELLS"),
          reuse={"sides": ["tgt"], "mode": "inplace", "touch": "regrid"}),
    _case(_u([4, 3]), _u([3, 3]), reuse={"sides": ["src"], "mode": "same", "touch": "regrid"}, twin=False),
    # equal rasters in projected coordinates, shifted by whole cells (seeded/C16_g): 1 m cells at (500000, 5600000),
    # shift (+2,-3) cells between an Esri raster and a uniform grid; same-layout grids shifted by (+1,+1); half a cell
    _case({"cls": "esri", "ncols": 6, "nrows": 5, "cs": fr(1), "xll": fr(500000), "yll": fr(5600000), "order": "C"},
          _u([7, 6], loc="CELLS", origin=[fr(500002), fr(5599997)], order="F"), via="comp", tgrid="info", kind="shifted"),
    _case(_u([7, 6], loc="CELLS", origin=[fr(500000), fr(5600000)]), _u([7, 6], loc="CELLS", origin=[fr(500001), fr(5600001)]),
          kind="shifted"),
    _case(_u([6, 5], origin=[fr(3400000), fr(5812345)], spacing=[fr(2), fr(2)], order="C", rev=True),
          _u([6, 5], origin=[fr(3400001), fr(5812346)], spacing=[fr(2), fr(2)], inc=[True, False]), kind="shifted"),
    _case(_u([9], origin=[fr(9999000)], loc="CELLS"), _u([9], origin=[fr(9999003)], loc="CELLS"), kind="shifted", am="none", down=None),
    # integer-dtype payloads (seeded/C16_j): h = 5 + 3x + 2y is whole-numbered on the integer source lattice, stored as
    # int64 / int32 / int16; the targets at multiples of 3/4 (resp. 1/2) need 7.25, 8.75, ... ; masked node holds -9999
    _case(_u([3, 3]), _u([3, 3], spacing=[fr(Fraction(3, 4)), fr(Fraction(1, 2))], order="C", rev=True), method="linear",
          smask=[False] * 4 + [True] + [False] * 4, src_ma=True,
          svals=[fr(-9999 if (x, y) == (1, 1) else 5 + 3 * x + 2 * y) for x in range(3) for y in range(3)],
          affine=[fr(5), [fr(3), fr(2)]], dtype="int64"),
    _case({"cls": "upoints", "points": [[fr(x), fr(y)] for x, y in [(0, 0), (3, 0), (0, 3), (3, 3), (1, 2), (2, 1)]], "order": "C"},
          _u([4, 4], spacing=[fr(Fraction(5, 4)), fr(Fraction(3, 4))], origin=[fr(Fraction(-1, 2)), fr(Fraction(1, 4))], loc="CELLS"),
          method="linear", fill=True, svals=[fr(5 + 3 * x + 2 * y) for x, y in [(0, 0), (3, 0), (0, 3), (3, 3), (1, 2), (2, 1)]],
          affine=[fr(5), [fr(3), fr(2)]], dtype="int32", via="comp"),
    _case(_u([4, 3]), _u([5, 4], spacing=[fr(Fraction(3, 4)), fr(Fraction(1, 2))]), method="linear", smask=[False] * 12,
          svals=[fr(-7 + 2 * x - 3 * y) for x in range(4) for y in range(3)], affine=[fr(-7), [fr(2), fr(-3)]], dtype="int16"),
    _case(_u([4, 3]), _u([5, 4], spacing=[fr(Fraction(3, 4)), fr(Fraction(1, 2))]), dtype="int16"),
    # several publications through ONE adapter, the first with NaN at interior source locations (seeded/C16_m): the
    # later, finite affine fields must be interpolated inside the hull as if nothing had passed before
    _case({"cls": "upoints", "points": [[fr(x), fr(y)] for x, y in [(0, 0), (3, 0), (0, 3), (3, 3), (1, 2), (2, 1)]], "order": "C"},
          _u([4, 4], spacing=[fr(Fraction(5, 4)), fr(Fraction(3, 4))], origin=[fr(Fraction(-1, 2)), fr(Fraction(1, 4))], loc="CELLS"),
          method="linear", fill=True, svals=[fr(Fraction(1, 2) + 3 * x + 2 * y) for x, y in [(0, 0), (3, 0), (0, 3), (3, 3), (1, 2), (2, 1)]],
          affine=[fr(Fraction(1, 2)), [fr(3), fr(2)]],
          history=[{"vals": [fr(1), fr(4), fr(4), fr(7), None, fr(4)], "affine": [fr(1), [fr(1), fr(1)]]}]),
    _case(_u([4, 4]), _u([5, 5], spacing=[fr(Fraction(3, 4)), fr(Fraction(3, 4))], origin=[fr(Fraction(-1, 4)), fr(Fraction(-1, 4))], order="C", rev=True),
          method="linear", fill=True, via="comp", smask=[True] + [False] * 15, src_ma=True,
          svals=[fr(777 if (x, y) == (0, 0) else Fraction(1, 4) + x - 2 * y) for x in range(4) for y in range(4)],
          affine=[fr(Fraction(1, 4)), [fr(1), fr(-2)]],
          history=[{"vals": [(None if (x, y) in ((1, 1), (2, 2)) else fr(777 if (x, y) == (0, 0) else x + y)) for x in range(4) for y in range(4)],
                    "affine": [fr(0), [fr(1), fr(1)]]},
                   {"vals": [fr(777 if (x, y) == (0, 0) else 2 + 2 * x + y) for x in range(4) for y in range(4)],
                    "affine": [fr(2), [fr(2), fr(1)]]}]),
    _case(_u([4, 3]), _u([5, 4], spacing=[fr(Fraction(3, 4)), fr(Fraction(1, 2))]),
          history=[{"vals": [None, None] + [fr(50 + i) for i in range(10)], "affine": None}]),
    # 1-D and 3-D
    _case(_u([6], inc=[False]), _u([4], spacing=[fr(Fraction(3, 2))], loc="CELLS")),
    _case(_u([3, 2, 2], order="C", rev=True, inc=[True, False, True]), _u([2, 2, 3], loc="CELLS", order="F")),
    # linear: masked structured source (unstructured path), affine field x + 2y + 1/2
    _case(_u([3, 3]), _u([3, 3], spacing=[fr(Fraction(3, 4)), fr(1)], order="C", rev=True), method="linear",
          smask=[False] * 4 + [True] + [False] * 4, svals=[fr(Fraction(1, 2) + x + 2 * y) for x in range(3) for y in range(3)],
          affine=[fr(Fraction(1, 2)), [fr(1), fr(2)]]),
    _case(_u([3, 3]), _u([3, 3], spacing=[fr(Fraction(3, 2)), fr(1)]), method="linear", fill=True, smask=[False] * 9,
          svals=[fr(Fraction(1, 2) + x + 2 * y) for x in range(3) for y in range(3)], affine=[fr(Fraction(1, 2)), [fr(1), fr(2)]]),
    _case(_u([3, 3]), _u([3, 3], spacing=[fr(Fraction(3, 2)), fr(1)]), method="linear", am="none", smask=[False] * 9,
          svals=[fr(Fraction(1, 2) + x + 2 * y) for x in range(3) for y in range(3)], affine=[fr(Fraction(1, 2)), [fr(1), fr(2)]]),
]


def generate(rng, tier):
    n = 840 if tier == "quick" else 40000
    cases = list(CORPUS)
    kinds = ["nearest"] * 4 + ["identity"] * 2 + ["linaff"] * 3 + ["linrand"] + ["shifted"] * 2
    for i in range(n):
        cases.append(_gen_case(rng, kinds[i % len(kinds)]))
    return cases


# ---------------------------------------------------------------------------------------------
# implementation driver
# ---------------------------------------------------------------------------------------------
def _py_mask(m, shape):
    if m is None:
        return None
    if m == "flex":
        return fm.Mask.FLEX
    if m == "none":
        return fm.Mask.NONE
    return np.array(m, dtype=bool).reshape(shape)


def _cells_of(r, tshape, pos):
    """delivered array -> elements in the target grid's flattening order"""
    mag = r.magnitude if hasattr(r, "magnitude") else r
    if tuple(mag.shape) != (1, *tshape):
        return ["other", "shape", [int(x) for x in mag.shape]]
    a = mag[0]
    mask = np.ma.getmaskarray(a).reshape(-1)
    data = np.ma.getdata(a).reshape(-1)
    cells = []
    for k in pos:
        if mask[k]:
            cells.append(None)
        elif np.isnan(data[k]):
            cells.append("nan")
        else:
            cells.append(fr(float(data[k])))
    return ["ok", cells, bool(np.ma.isMaskedArray(a))]


def _make_adapter(case, sg, tg):
    tshape = tuple(data_shape(case["tgt"]))
    kw = {"in_grid": sg if case["sgrid"] == "both" else None,
          "out_grid": tg if case["tgrid"] in ("adapter", "both") else None,
          "out_mask": _py_mask(case["am"], tshape)}
    if case["method"] == "nearest":
        return fm.adapters.RegridNearest(**kw)
    return fm.adapters.RegridLinear(fill_with_nearest=case["fill"], **kw)


def _flip(loc):
    return "POINTS" if loc == "CELLS" else "CELLS"


def _obtain_grids(case):
    """Grid objects of the case.  With case["reuse"] the objects are NOT fresh: a uniform / rectilinear grid is first
    built (with the other data location for the modes copy / deepcopy / inplace, with the same one for mode same),
    used (data_points / data_shape / data_size read, or a complete preliminary nearest-neighbour regridding with it
    as source resp. target, which is judged like any other), and only then turned into the grid of the case by
    `copy()` + `data_location = ...`, by the setter on the object itself, or not at all (same object in two
    successive adapters).  Returns (source grid, target grid, [preliminary (case, result)])."""
    reuse = case.get("reuse")
    pre = []
    out = []
    d = grid_dim(case["src"])
    for side in ("src", "tgt"):
        desc = case[side]
        if not reuse or side not in reuse["sides"] or desc["cls"] not in ("uniform", "rect"):
            out.append(build_grid(desc))
            continue
        mode = reuse["mode"]
        first = dict(desc) if mode == "same" else dict(desc, loc=_flip(desc["loc"]))
        g0 = build_grid(first)
        if reuse["touch"] == "read":
            _ = (g0.data_points, g0.data_shape, g0.data_size)
        else:
            other = _u([3] * d, spacing=[fr(Fraction(3, 2))] * d, origin=[fr(Fraction(-1, 4))] * d)
            pc = _case(first, other) if side == "src" else _case(other, first)
            pg = (g0, build_grid(other)) if side == "src" else (build_grid(other), g0)
            pre.append([pc, {"res": _run_link(pc, [fq(v) for v in pc["svals"]], pg)[0]}])
        if mode == "copy":
            g = g0.copy()
            g.data_location = desc["loc"]
        elif mode == "deepcopy":
            g = g0.copy(deep=True)
            g.data_location = desc["loc"]
        elif mode == "inplace":
            g0.data_location = desc["loc"]
            g = g0
        else:
            g = g0
        out.append(g)
    return out[0], out[1], pre


def _run_link(case, vals, grids=None, history=None):
    """One regridding adapter, all publications of the case through it: the earlier ones (`history`, value None = NaN)
    first, the case's own values last.  Returns (result of the last publication, source grid, results of the earlier
    publications)."""
    sg, tg = grids if grids is not None else (build_grid(case["src"]), build_grid(case["tgt"]))
    sshape, tshape = tuple(data_shape(case["src"])), tuple(data_shape(case["tgt"]))
    tpos = flat_pos(case["tgt"])
    smask = _py_mask(case["smask"], sshape)
    day = 86400 * 10**6

    def payload(vs):
        data = np.array([float("nan") if v is None else float(v) for v in vs], dtype=float).reshape(sshape)
        if case.get("dtype"):
            # payload stored with another dtype (integer dtypes only for whole-numbered fields: the cast is exact)
            data = data.astype(case["dtype"])
        if case["src_ma"]:
            data = np.ma.array(data, mask=(smask if isinstance(smask, np.ndarray) else False))
        return data
    datas = [payload(h) for h in (history or [])] + [payload(vals)]
    n = len(datas)
    ada = _make_adapter(case, sg, tg)
    info_s = fm.Info(time=None if case["via"] == "comp" else T(0), grid=sg, mask=smask)
    info_t = fm.Info(time=None if case["via"] == "comp" else T(0), grid=tg if case["tgrid"] in ("info", "both") else None,
                     mask=_py_mask(case["down"], tshape))
    if case["via"] == "comp":
        seen = {}

        def rec(_name, d, t):
            seen[int(round((t - T(0)).total_seconds() / 86400))] = _cells_of(d, tshape, tpos)
        gen = fm.components.CallbackGenerator(
            {"Out": (lambda t: datas[min(int(round((t - T(0)).total_seconds() / 86400)), n - 1)].copy(), info_s)},
            start=T(0), step=D(day))
        con = fm.components.DebugConsumer({"In": info_t}, start=T(0), step=D(day), callbacks={"In": rec})
        comp = fm.Composition([gen, con], print_log=False)
        gen.outputs["Out"] >> ada >> con.inputs["In"]
        try:
            comp.connect()
        except Exception as e:  # noqa
            return ["err", err_class(e), "connect"], None, []
        try:
            comp.run(end_time=T(max(n - 1, 1) * day))
        except Exception as e:  # noqa
            return ["err", err_class(e), "run"], None, []
        if sorted(seen) != list(range(max(n, 2))):
            return ["other", "publications seen", sorted(seen)], None, []
        if n == 1 and seen[0] != seen[1]:
            return ["other", "second pull differs", [seen[0], seen[1]]], None, []
        return seen[n - 1], sg, [seen[i] for i in range(n - 1)]
    out = fm.Output(name="Out")
    inp = fm.Input(name="In")
    out >> ada >> inp
    inp.ping()
    out.push_info(info_s)
    try:
        inp.exchange_info(info_t)
    except Exception as e:  # noqa
        return ["err", err_class(e), "exchange"], None, []
    results = []
    for i, data in enumerate(datas):
        try:
            out.push_data(data, T(i * day))
        except Exception as e:  # noqa
            return ["err", err_class(e), "push"], None, results
        try:
            r = inp.pull_data(T(i * day))
        except Exception as e:  # noqa
            return ["err", err_class(e), "pull"], None, results
        results.append(_cells_of(r, tshape, tpos))
    return results[-1], sg, results[:-1]


def _flat(case):
    """flattened views (harness's own locations): source points / values / mask in source order, target points"""
    src, tgt = case["src"], case["tgt"]
    spos, tpos = flat_pos(src), flat_pos(tgt)
    sl, tl = own_locs(src), own_locs(tgt)
    vals = [fq(v) for v in case["svals"]]
    sm = case["smask"] if isinstance(case["smask"], list) else None
    return {"spts": [sl[k] for k in spos], "svals": [vals[k] for k in spos],
            "smask": [bool(sm[k]) for k in spos] if sm is not None else None,
            "tpts": [tl[k] for k in tpos], "spos": spos, "tpos": tpos}


def _grid_points_agree(g, desc, pts_flat):
    dp = np.asarray(g.data_points, dtype=float)
    if dp.shape != (len(pts_flat), len(pts_flat[0])):
        return False
    return all(Fraction(float(dp[i, k])) == pts_flat[i][k] for i in range(len(pts_flat)) for k in range(len(pts_flat[0])))


def run_impl(case):
    from scipy.interpolate import LinearNDInterpolator
    from scipy.spatial import KDTree

    fl = _flat(case)
    vals = [fq(v) for v in case["svals"]]
    sg, tg, pre = _obtain_grids(case)
    hist = [[None if v is None else fq(v) for v in h["vals"]] for h in (case.get("history") or [])]
    res, _, hres = _run_link(case, vals, (sg, tg), hist)
    obs = {"res": res}
    if hist:
        obs["hist_res"] = hres
    if pre:
        obs["pre"] = pre
    if case.get("twin") and isinstance(case["smask"], list):
        vals2 = [(-v - 7 if m else v) for v, m in zip(vals, case["smask"])]
        obs["twin"] = _run_link(case, vals2, (sg, tg), hist)[0]       # the same grid objects in a second adapter
    # the premise "flattened data pairs with data_points": data_points of the grid objects that were actually used
    # (after all of the above), against the harness's own locations
    obs["points_agree"] = [_grid_points_agree(sg, case["src"], fl["spts"]), _grid_points_agree(tg, case["tgt"], fl["tpts"])]
    # ---- oracle runs (scipy, independent of finam) on the harness's own coordinates
    keep = [not m for m in fl["smask"]] if fl["smask"] is not None else [True] * len(fl["spts"])
    ic = [p for p, k in zip(fl["spts"], keep) if k]
    cv = [v for v, k in zip(fl["svals"], keep) if k]
    orc = {}
    if ic:
        icf = np.array([[float(x) for x in p] for p in ic])
        tpf = np.array([[float(x) for x in p] for p in fl["tpts"]])
        ids = KDTree(icf).query(tpf)[1]
        bad = 0
        for p, i in zip(fl["tpts"], ids):
            dmin = min(d2(p, q) for q in ic)
            if not (0 <= int(i) < len(ic)) or d2(p, ic[int(i)]) != dmin:
                bad += 1
        orc["kd_queries"] = len(fl["tpts"])
        orc["kd_bad"] = bad
    if case["method"] == "linear" and ic:
        inter = LinearNDInterpolator(icf, np.zeros(len(ic)))
        z = inter(tpf)
        inter.values = np.ascontiguousarray(np.array([float(v) for v in cv]).reshape(-1, 1), dtype=np.double)
        y = inter(tpf)
        tab = [None if np.isnan(v) else fr(float(v)) for v in y]
        obs["tab"] = tab
        orc["lin_points"] = len(tab)
        orc["lin_domain_bad"] = int(sum(1 for a, b in zip(z, y) if bool(np.isnan(a)) != bool(np.isnan(b))))
        den, planes = hull_planes(ic)
        inside = [in_hull(den, planes, p) for p in fl["tpts"]]
        obs["inside"] = inside
        orc["lin_hull_bad"] = int(sum(1 for t, ins in zip(tab, inside) if (t is not None) != ins))
        if case["affine"]:
            c0, grad = fq(case["affine"][0]), [fq(a) for a in case["affine"][1]]
            badv = 0
            for t, p in zip(tab, fl["tpts"]):
                if t is not None:
                    f = c0 + sum(a * x for a, x in zip(grad, p))
                    if abs(fq(t) - f) > TOL * max(1, abs(f)):
                        badv += 1
            orc["lin_affine_bad"] = badv
    obs["oracle"] = orc
    return obs


# ---------------------------------------------------------------------------------------------
# Gallina emitter
# ---------------------------------------------------------------------------------------------
def _pt(p):
    return L(Q(x) for x in p)


def _mk(m, pos):
    if m is None:
        return NONE
    if m == "flex":
        return Some("KFlex")
    if m == "none":
        return Some("KNone")
    return Some(C("KBits", L(B(m[k]) for k in pos)))


def coq_case(case, obs):
    fl = _flat(case)
    if case["method"] == "nearest":
        meth = "MNearest"
    else:
        tab = obs.get("tab") or [None] * len(fl["tpts"])
        t = L(P(_pt(p), (NONE if v is None else Some(Q(fq(v))))) for p, v in zip(fl["tpts"], tab))
        aff = NONE
        if case["affine"]:
            aff = Some(P(Q(fq(case["affine"][0])), L(Q(fq(a)) for a in case["affine"][1])))
        meth = C("MLinear", B(case["fill"]), t, aff)
    sm = NONE if fl["smask"] is None else Some(L(B(b) for b in fl["smask"]))
    return C("mk_case", meth, _mk(case["am"], fl["tpos"]), _mk(case["down"], fl["tpos"]), sm, B(case["src_ma"]),
             L(_pt(p) for p in fl["spts"]), L(Q(v) for v in fl["svals"]), L(_pt(p) for p in fl["tpts"]))


def _cell(c):
    if c is None:
        return "CMasked"
    if c == "nan":
        return "CNaN"
    return C("CVal", Q(fq(c)))


def coq_obs(case, obs):
    r = obs["res"]
    if r[0] == "ok":
        return C("OCells", L(_cell(c) for c in r[1]))
    if r[0] == "err" and r[1] == "MetaDataError":
        return "OErrMeta"
    if r[0] == "err" and r[1] == "DataError":
        return "OErrData"
    return C("OOther", N(1))


# ---------------------------------------------------------------------------------------------
# property monitor (exact arithmetic, independent of the Coq model)
# ---------------------------------------------------------------------------------------------
def _target_mask(case, fl):
    """the mask requested for the target (adapter's, else the target's), flattened; None if not explicit"""
    for m in (case["am"], case["down"]):
        if isinstance(m, list):
            return [bool(m[k]) for k in fl["tpos"]]
        if m is not None:
            return None
    return None


def _masks_consistent(case):
    am, down = case["am"], case["down"]
    if am is None and down is None:
        return False
    if am is None or down is None or down == "flex":
        return True
    if down == "none":
        return am == "none"
    return isinstance(am, list) and am == down


def monitor(case, obs):
    for pc, po in obs.get("pre", []):
        f = _monitor(pc, po)
        if f:
            return "preliminary regridding with the grid object that is reused afterwards: " + f
    f = _monitor(case, obs)
    if f is None and case.get("history") and obs["res"][0] == "ok":
        hres = obs.get("hist_res", [])
        if len(hres) != len(case["history"]):
            return "an earlier publication was not delivered"
        for i, (h, hr) in enumerate(zip(case["history"], hres)):
            if hr[0] != "ok":
                return f"publication {i} of {len(hres) + 1}: unexpected result form {hr[:2]}"
            if any(v is None for v in h["vals"]):
                continue        # a field with NaN is not affine: the property does not speak about it
            sub = dict(case, svals=h["vals"], affine=h["affine"], history=None, twin=False)
            so = {"res": hr, "inside": obs.get("inside"), "tab": obs.get("tab")}
            f = _monitor(sub, so)
            if f:
                return f"publication {i} of {len(hres) + 1} through the same adapter: " + f
    if f is not None and case.get("history"):
        f = f"publication {len(case['history'])} of {len(case['history']) + 1} through the same adapter (earlier ones: " \
            + ", ".join("with NaN" if any(v is None for v in h["vals"]) else "finite" for h in case["history"]) + "): " + f
    if f is None and not all(obs.get("points_agree", [True, True])):
        return "grid.data_points differs from the locations of the data elements (order/layout pairing premise)"
    return f


def _monitor(case, obs):
    fl = _flat(case)
    r = obs["res"]
    keep = [not m for m in fl["smask"]] if fl["smask"] is not None else [True] * len(fl["spts"])
    ic = [p for p, k in zip(fl["spts"], keep) if k]
    cv = [v for v, k in zip(fl["svals"], keep) if k]
    refused = case["src_ma"] and fl["smask"] is None
    linear, fill = case["method"] == "linear", case["fill"]
    inside = obs.get("inside")
    if r[0] == "other":
        return f"unexpected result form: {r[1:]}"
    # --- outcomes that must not be errors / must be errors (only where the property text decides it)
    consistent = _masks_consistent(case)
    if linear and not fill:
        am, down = case["am"], case["down"]
        outs = [not x for x in inside]
        if am == "none":
            exp_err = any(outs)
        elif isinstance(am, list):
            req = [bool(am[k]) for k in fl["tpos"]]
            exp_err = any(o and not q for o, q in zip(outs, req))
        else:
            exp_err = False
        if exp_err:
            if r[0] != "err":
                return "linear regridding without fill delivered data although target locations outside the convex hull are not masked"
            return None
        # effective mask: requested bits, or the outliers
        if am is None or am == "flex":
            eff = outs
            consistent = (not (am is None and down is None)) and (
                down is None or down == "flex" or (isinstance(down, list) and [bool(down[k]) for k in fl["tpos"]] == outs))
        else:
            eff = [bool(am[k]) for k in fl["tpos"]] if isinstance(am, list) else None
    else:
        eff = _target_mask(case, fl)
    if r[0] == "err":
        if consistent and not refused:
            return f"error {r[1]} at {r[2]} for a consistent configuration"
        return None
    if not consistent:
        return "inconsistent target mask specification was accepted"
    if refused:
        return "masked source data without an explicit source mask was accepted"
    cells = r[1]
    if len(cells) != len(fl["tpts"]):
        return "wrong number of delivered elements"
    c0 = grad = None
    if case["affine"]:
        c0, grad = fq(case["affine"][0]), [fq(a) for a in case["affine"][1]]
    for j, (p, c) in enumerate(zip(fl["tpts"], cells)):
        masked = bool(eff[j]) if eff is not None else False
        if masked:
            if c is not None:
                return f"masked target element {j} (location {[str(x) for x in p]}) was delivered unmasked"
            continue
        if c is None:
            return f"unmasked target element {j} (location {[str(x) for x in p]}) was delivered masked"
        if c == "nan":
            return f"unmasked target element {j} holds NaN"
        v = fq(c)
        use_nearest = (not linear) or (fill and not inside[j])
        if use_nearest:
            dmin = min(d2(p, q) for q in ic)
            ok = {w for q, w in zip(ic, cv) if d2(p, q) == dmin}
            if v not in ok:
                return (f"target element {j} at {[str(x) for x in p]} received {v}; the nearest unmasked source "
                        f"location(s) hold {sorted(str(w) for w in ok)}")
        elif case["affine"]:
            f = c0 + sum(a * x for a, x in zip(grad, p))
            if abs(v - f) > TOL * max(1, abs(f)):
                return f"target element {j} at {[str(x) for x in p]} inside the hull received {float(v)}; the affine field is {float(f)}"
        else:
            t = obs["tab"][j]
            if t is None or abs(v - fq(t)) > TOL * max(1, abs(fq(t))):
                return f"target element {j}: linear interpolation of the unmasked source gives {t}, received {float(v)}"
    if "twin" in obs and obs["twin"] != r:
        return "values under the source mask influenced the result (two runs differing only under the mask differ)"
    return None


def nontrivial(case, obs):
    r = obs["res"]
    if r[0] != "ok":
        return False
    vs = {tuple(c) for c in r[1] if isinstance(c, list)}
    if len(vs) < 2:
        return False

    def special(g):
        if not is_struct(g):
            return True
        if g["cls"] == "esri":
            return True
        return g["order"] != "F" or g["rev"] or not all(g["inc"]) or g["loc"] != "CELLS"
    return (isinstance(case["smask"], list) or isinstance(case["am"], list) or isinstance(case["down"], list)
            or special(case["src"]) or special(case["tgt"]))


def distribution(cases, obss):
    from collections import Counter

    def gk(g):
        return g["cls"] + ("/" + g["loc"] if "loc" in g else "") + f"/{grid_dim(g)}D"
    out = {
        "method": dict(Counter(c["method"] + ("+fill" if c["fill"] else "") for c in cases)),
        "kind": dict(Counter(c["kind"] for c in cases)),
        "via": dict(Counter(c["via"] for c in cases)),
        "publications_through_one_adapter": dict(Counter(
            (c["method"] + ("+fill" if c["fill"] else "") + ":" + (
                "1" if not c.get("history") else
                str(len(c["history"]) + 1) + ("/first with NaN" if any(v is None for v in c["history"][0]["vals"]) else "/finite")))
            for c in cases)),
        "payload_dtype": dict(Counter(c["method"] + ":" + str(c.get("dtype") or "float64") for c in cases)),
        "grid_object_reuse": dict(Counter(("fresh" if not c.get("reuse") else
                                           c["reuse"]["mode"] + "/" + c["reuse"]["touch"] + "/" + "+".join(c["reuse"]["sides"]))
                                          for c in cases)),
        "source_grid": dict(Counter(gk(c["src"]) for c in cases)),
        "target_grid": dict(Counter(gk(c["tgt"]) for c in cases)),
        "source_mask": dict(Counter("bits" if isinstance(c["smask"], list) else c["smask"] for c in cases)),
        "adapter_mask": dict(Counter("bits" if isinstance(c["am"], list) else str(c["am"]) for c in cases)),
        "target_mask": dict(Counter("bits" if isinstance(c["down"], list) else str(c["down"]) for c in cases)),
        "result": dict(Counter((o["res"][0] if o["res"][0] != "err" else "err:" + o["res"][1]) for o in obss if "res" in o)),
    }
    return out


def extra_evidence(cases, obss):
    tot = {}
    for o in obss:
        for k, v in (o.get("oracle") or {}).items():
            tot[k] = tot.get(k, 0) + int(v)
    twins = sum(1 for o in obss if "twin" in o)
    return {"oracle_hypotheses_checked_against_scipy": tot, "noninterference_twin_runs": twins}


# ---------------------------------------------------------------------------------------------
# shrinking
# ---------------------------------------------------------------------------------------------
def _reset_layout(g):
    if not is_struct(g) or g["cls"] == "esri":
        return None
    h = dict(g)
    h.update({"order": "F", "rev": False, "inc": [True] * len(g["inc"])})
    return h if h != g else None


def shrink_candidates(case):
    def upd(**kw):
        c = dict(case)
        c.update(kw)
        return c
    if case.get("history"):
        yield upd(history=None)
        if len(case["history"]) > 1:
            yield upd(history=case["history"][:1])
            yield upd(history=case["history"][1:])
    if case.get("dtype"):
        yield upd(dtype=None)
    if case.get("reuse"):
        yield upd(reuse=None)
        if len(case["reuse"]["sides"]) > 1:
            for sd in case["reuse"]["sides"]:
                yield upd(reuse=dict(case["reuse"], sides=[sd]))
        if case["reuse"]["touch"] != "read":
            yield upd(reuse=dict(case["reuse"], touch="read"))
    if case["via"] != "bare":
        yield upd(via="bare")
    if case.get("twin"):
        yield upd(twin=False)
    if case["tgrid"] != "adapter" or case["sgrid"] != "info":
        yield upd(tgrid="adapter", sgrid="info")
    if isinstance(case["am"], list) or isinstance(case["down"], list):
        yield upd(am=None, down="flex")
    if case["am"] is not None or case["down"] != "flex":
        yield upd(am=None, down="flex")
    if isinstance(case["smask"], list) and case["method"] == "nearest":
        yield upd(smask="flex", src_ma=False, twin=False)
    if case["src_ma"]:
        yield upd(src_ma=False)
    h = _reset_layout(case["tgt"])
    if h is not None and not (isinstance(case["am"], list) or isinstance(case["down"], list)):
        yield upd(tgt=h)
    h = _reset_layout(case["src"])
    if h is not None and not isinstance(case["smask"], list) and not case["affine"]:
        ns = int(np.prod(data_shape(h)))
        yield upd(src=h, svals=[fr(i + 1) for i in range(ns)])
