"""C10 — spilling data to disk is invisible and leaves no files behind.

Correspondence: REAL compositions (fm.Composition(..., slot_memory_limit, slot_memory_location=<fresh
temp dir>)) of one generator and 1-3 consumers, each linked directly or through one time-caching
adapter, are run for a sweep of memory limits.  Every buffering slot (the generator's Output and every
adapter) is instrumented at instance level: each _pack / push, each pull (get_data / _get_data), each
_unpack call is recorded together with the slot's buffer pattern (which entries are file names) and
the listing of the spill directory.  The Coq model Spill.c10_model is evaluated on exactly those
recorded op sequences (push times and sizes, pull keys and times, the limit) and must reproduce, after
every op, the spilled/in-RAM pattern, the counters of the slot's files on disk and the publication
indices handed to _unpack.  The same composition is also run with limit None; the monitor compares all
values delivered by slots and received by consumers (bit-exact), checks confinement of files to the
location, load(save p) = p per payload kind, and that the location is empty after run() returned.
"""
import hashlib
import os
import shutil
import tempfile

import numpy as np

from ..coqgen import B, C, L, N, NONE, P, Some, Z
from ..fin import fm, T, D, us_of, err_class

ID = "C10"
COQ_IMPORTS = "From FV Require Import Base Spill."
COQ_CHECK = "c10_check"
COQ_MODEL_OBS = "c10_model"
CASE_TIMEOUT = 30
RULE = (
    "real compositions: generator (step s) -> 1-3 consumers (steps c_i), each direct or behind "
    "NextTime/PreviousTime/LinearTime/StepTime(step)/AvgOverTime/SumOverTime(per_time True|False); payload scalar / grid array / "
    "masked array (fixed or flexible mask); slot_memory_limit in {None, -1, 0, k*nbytes, k*nbytes+-1 (k = 0..history), "
    "huge}, optionally overridden per slot; non-trivial = some slot holds at least one spilled and at least one "
    "in-RAM entry during the run (or, for limit 0 / None sweeps, at least one spill resp. none); distinct by "
    "canonical case hash"
)
TRUSTED = [
    "instance-level wrappers of push_data/_source_updated, get_data/_get_data, _pack, _unpack record the op sequence "
    "at the boundary of every buffering slot; slot.data is introspected (str entry = spilled)",
    "np.save / MaskedArray.dump / np.load and the OS file system are the save/load/fs parameters of the model; "
    "load(save p) = p is a hypothesis of the theorems, tested on every unpack of the correspondence runs",
    "id(slot) is unique among the slots alive during a run (file names of different slots do not clash)",
]
ASSUMPTIONS = [
    "payload tokens: the i-th payload packed by a slot is its publication i; files are attributed to slots by the "
    "'<id(slot)>-' prefix of their names",
    "theorems are per slot; everything else that happens in the file system is the model's Env step "
    "(arbitrary changes to files not named '<location>/<id(slot)>-*')",
    "initial file system holds no file named like the slot's spill files (fresh location / id)",
]

ADAPTERS = ["next", "prev", "linear", "step", "avg", "sum"]
KINDS = ["direct"] + ADAPTERS
PAYLOADS = ["scalar", "grid", "masked", "flexmask"]
STEP_PARAMS = [[1, 2], [0, 1], [1, 1], [1, 4], [3, 4]]
HUGE = 10**12
MASK = np.array([[True, False], [False, False], [False, True]])


def payload_size(payload):
    return 8 if payload == "scalar" else 48


# ----------------------------------------------------------------------------
# generator
# ----------------------------------------------------------------------------
def _limits(size, hist):
    ls = [None, 0, -1, HUGE]
    for k in range(0, hist + 1):
        ls += [k * size]
        if k:
            ls += [k * size - 1, k * size + 1]
    return ls


def _gen_comp(rng):
    unit = rng.choice([1, 1000, 10**6, 3600 * 10**6, 86400 * 10**6])
    s = rng.choice([1, 1, 2, 3, 5])
    nc = rng.choice([1, 1, 1, 2, 2, 3])
    cons = []
    for _ in range(nc):
        kind = rng.choice(KINDS)
        c = {"kind": kind, "step": rng.choice([1, 2, 3, 4, 5, 7]) * unit}
        if kind == "step":
            c["sp"] = rng.choice(STEP_PARAMS)
        if kind == "sum" and rng.random() < 0.4:
            c["pt"] = False
        cons.append(c)
    steps = rng.randint(3, 9)
    end = max(c["step"] for c in cons) * rng.choice([1, 2, 3]) + s * unit * rng.randint(0, steps)
    return {"payload": rng.choice(PAYLOADS), "src_step": s * unit, "consumers": cons, "end": end}


def _hist(comp):
    m = max(c["step"] for c in comp["consumers"])
    return min(8, m // comp["src_step"] + 2)


def _with(comp, limit, own=None):
    c = dict(comp)
    c["limit"] = limit
    if own:
        c["own"] = own
    return c


def _simple(kind, payload, limit, src=2, dst=3, end=9, sp=None):
    c = {"kind": kind, "step": dst * 10**6}
    if sp:
        c["sp"] = sp
    return {"payload": payload, "src_step": src * 10**6, "consumers": [c], "end": end * 10**6, "limit": limit}


def _corpus():
    cs = []
    # F3: single-entry spilled buffer of LinearTime / StepTime right after connect (limit 0)
    cs.append(_simple("linear", "grid", 0))
    cs.append(_simple("step", "grid", 0, sp=[1, 2]))
    # F4: adapter files at finalize
    cs.append(_simple("next", "grid", 0))
    cs.append(_simple("avg", "scalar", 0))
    # F5: masked payloads
    cs.append(_simple("direct", "masked", 0))
    cs.append(_simple("sum", "flexmask", 48))
    # tests/core/test_sdk.py::test_memory_limit-like: limit crossed mid run
    cs.append(_simple("direct", "grid", 2 * 48, src=1, dst=5, end=15))
    # F9 (found by this check): SumOverTime(per_time=True) reloads spilled entries with its OUTPUT units
    cs.append(_simple("sum", "scalar", 0, src=1, dst=2, end=3))
    cs.append({"payload": "grid", "src_step": 10**6, "end": 6 * 10**6, "limit": 48,
               "consumers": [{"kind": "sum", "step": 3 * 10**6, "pt": False}]})
    cs.append({"payload": "scalar", "src_step": 10**6, "end": 12 * 10**6, "limit": 16,
               "consumers": [{"kind": "direct", "step": 4 * 10**6}, {"kind": "avg", "step": 6 * 10**6}]})
    cs.append({"payload": "grid", "src_step": 10**6, "end": 12 * 10**6, "limit": None, "own": {"0": 48, "1": 0},
               "consumers": [{"kind": "linear", "step": 5 * 10**6}, {"kind": "direct", "step": 3 * 10**6}]})
    return cs


CORPUS = _corpus()


def generate(rng, tier):
    ncomp = 130 if tier == "quick" else 900
    cases = list(CORPUS)
    # every slot kind x payload kind x {0, one payload, None}: the systematic part
    for kind in KINDS:
        for payload in PAYLOADS:
            size = payload_size(payload)
            for lim in ([0, size, 2 * size + 1] if tier == "quick" else _limits(size, 4)):
                cases.append(_simple(kind, payload, lim, src=rng.choice([1, 2, 3]), dst=rng.choice([2, 3, 5, 7]),
                                     end=rng.choice([9, 12, 15]), sp=rng.choice(STEP_PARAMS) if kind == "step" else None))
    for _ in range(ncomp):
        comp = _gen_comp(rng)
        size = payload_size(comp["payload"])
        lims = _limits(size, _hist(comp))
        if tier == "quick":
            lims = [0, None] + rng.sample(lims, min(4, len(lims)))
        for lim in lims:
            own = None
            if rng.random() < 0.15:
                nslots = 1 + sum(1 for c in comp["consumers"] if c["kind"] != "direct")
                own = {str(rng.randrange(nslots)): rng.choice([0, size, 2 * size, HUGE])}
            cases.append(_with(comp, lim, own))
    return cases


# ----------------------------------------------------------------------------
# implementation driver
# ----------------------------------------------------------------------------
def _digest(q):
    """Exact, canonical description of a delivered quantity (bit pattern, mask, units)."""
    if isinstance(q, str):
        return ["raw", "str", "file-name"]
    try:
        units = str(q.units)
        m = q.magnitude
    except AttributeError:
        return ["raw", type(q).__name__, str(q)[:60]]
    if isinstance(m, str):
        return ["raw", "str", "file-name"]
    masked = bool(np.ma.isMaskedArray(m))
    mask = np.ma.getmaskarray(m) if masked else np.zeros(np.shape(m), dtype=bool)
    data = np.ascontiguousarray(np.ma.filled(m, 0.0) if masked else np.asarray(m), dtype=np.float64)
    h = hashlib.sha1(data.tobytes() + b"|" + np.ascontiguousarray(mask).tobytes()).hexdigest()[:16]
    flat = data.reshape(-1)
    return [units, masked, list(data.shape), h, float(flat[0]) if flat.size else 0.0, float(flat[-1]) if flat.size else 0.0]


def _same_payload(a, b):
    """load(save p) = p: same type (masked or not), same bits, same mask."""
    if bool(np.ma.isMaskedArray(a)) != bool(np.ma.isMaskedArray(b)):
        return False
    if np.shape(a) != np.shape(b):
        return False
    if np.ma.isMaskedArray(a):
        if np.ma.getmaskarray(a).tobytes() != np.ma.getmaskarray(b).tobytes():
            return False
        return np.ma.getdata(a).tobytes() == np.ma.getdata(b).tobytes()
    return np.asarray(a).tobytes() == np.asarray(b).tobytes()


def _make_adapter(c):
    k = c["kind"]
    if k == "next":
        return fm.adapters.NextTime()
    if k == "prev":
        return fm.adapters.PreviousTime()
    if k == "linear":
        return fm.adapters.LinearTime()
    if k == "step":
        n, d = c.get("sp", [1, 2])
        return fm.adapters.StepTime(step=n / d)
    if k == "avg":
        return fm.adapters.AvgOverTime()
    if k == "sum":
        return fm.adapters.SumOverTime(per_time=bool(c.get("pt", True)))
    raise ValueError(k)


def _listing(loc):
    try:
        return sorted(os.listdir(loc))
    except FileNotFoundError:
        return ["<location missing>"]


def _run_once(case, limit, loc, instrument):
    payload = case["payload"]
    if payload == "scalar":
        kw = dict(grid=fm.NoGrid(), units="m")
    else:
        kw = dict(grid=fm.UniformGrid((4, 3)), units="m",
                  mask=(MASK if payload == "masked" else fm.Mask.FLEX))
    counter = [0]

    def gen(_t):
        i = counter[0]
        counter[0] += 1
        if payload == "scalar":
            return float(3 * i + 1)
        d = np.arange(6.0).reshape(3, 2) * 0.5 + 8.0 * i
        if payload == "masked":
            return np.ma.array(d, mask=MASK)
        if payload == "flexmask":
            m = MASK.copy()
            m[1, i % 2] = True
            return np.ma.array(d, mask=m)
        return d

    src = fm.components.CallbackGenerator({"Out": (gen, fm.Info(None, **kw))}, T(0), D(case["src_step"]))
    received = []
    comps = [src]
    for i, c in enumerate(case["consumers"]):
        def cb(inp, t, i=i):
            received.append([i, us_of(t), _digest(inp["In"])])
            return {}
        ckw = dict(kw)
        if c["kind"] == "sum" and c.get("pt", True):
            ckw["units"] = None  # SumOverTime(per_time=True) delivers [units * s]
        comps.append(fm.components.CallbackComponent({"In": fm.Info(None, **ckw)}, {}, cb, T(0), D(c["step"])).with_name(f"C{i}"))

    comp = fm.Composition(comps, print_log=False, slot_memory_limit=limit, slot_memory_location=loc)
    out = src.outputs["Out"]
    slots = [out]
    kinds = ["output"]
    for i, c in enumerate(case["consumers"]):
        if c["kind"] == "direct":
            out >> comps[i + 1].inputs["In"]
        else:
            ada = _make_adapter(c)
            out >> ada >> comps[i + 1].inputs["In"]
            slots.append(ada)
            kinds.append(c["kind"])
    if instrument:  # per-slot limits set by the user win over the composition's (schedule.py 152, 194)
        for si, own_lim in (case.get("own") or {}).items():
            if int(si) < len(slots):
                slots[int(si)].memory_limit = own_lim

    events = [[] for _ in slots]
    delivered = [[] for _ in slots]
    roundtrip_bad = []
    nround = [0]
    keep = []  # keeps packed objects alive (no id() reuse)

    def files_of(slot):
        pre = f"{id(slot)}-"
        res = []
        for fn in _listing(loc):
            if fn.startswith(pre) and fn.endswith(".npy"):
                try:
                    res.append(int(fn[len(pre):-4]))
                except ValueError:
                    res.append(4998)
        return sorted(res)

    def pattern(slot, extra=None):
        p = [isinstance(e[1], str) for e in slot.data]
        if extra is not None:
            p.append(extra)
        return p

    def instrument_slot(si, slot):
        cur = {"time": None, "trace": None, "npack": 0}
        by_file, by_obj, orig = {}, {}, {}
        real_pack, real_unpack = slot._pack, slot._unpack
        is_out = si == 0
        real_push = slot.push_data if is_out else slot._source_updated
        real_get = slot.get_data if is_out else slot._get_data
        keyidx = {}

        def pack(data):
            size = int(data.nbytes)
            r = real_pack(data)
            idx = cur["npack"]
            cur["npack"] += 1
            keep.append(data)
            if isinstance(r, str):
                by_file[os.path.basename(r)] = idx
                orig[os.path.basename(r)] = (np.ma.copy(data.magnitude) if np.ma.isMaskedArray(data.magnitude)
                                             else np.array(data.magnitude, copy=True), str(data.units))
                if os.path.dirname(os.path.abspath(r)) != os.path.abspath(loc):
                    roundtrip_bad.append(["outside", si, idx])
            else:
                by_obj[id(r)] = idx
                keep.append(r)
            events[si].append(["push", us_of(cur["time"]) if cur["time"] is not None else -1, size,
                               pattern(slot, isinstance(r, str)), files_of(slot)])
            return r

        def unpack(where):
            r = real_unpack(where)
            if isinstance(where, str):
                idx = by_file.get(os.path.basename(where), 4999)
                o = orig.get(os.path.basename(where))
                nround[0] += 1
                try:
                    if o is None or not _same_payload(o[0], r.magnitude) or str(r.units) != o[1]:
                        roundtrip_bad.append(["roundtrip", si, idx])
                except Exception:  # noqa
                    roundtrip_bad.append(["roundtrip", si, idx])
            else:
                idx = by_obj.get(id(where), 4999)
            if cur["trace"] is not None:
                cur["trace"].append(idx)
            return r

        def push(*a, **k):
            # Output.push_data(data, time) / Adapter._source_updated(time)
            cur["time"] = a[-1] if a else k.get("time")
            return real_push(*a, **k)

        def get(time, target):
            cur["trace"] = []
            key = keyidx.setdefault(id(target), len(keyidx)) if is_out else 0
            try:
                r = real_get(time, target)
            except Exception as e:  # noqa
                events[si].append(["pull", key, us_of(time), ["err", err_class(e)], pattern(slot), files_of(slot)])
                delivered[si].append([us_of(time), ["err", err_class(e)]])
                cur["trace"] = None
                raise
            events[si].append(["pull", key, us_of(time), ["ok", list(cur["trace"])], pattern(slot), files_of(slot)])
            delivered[si].append([us_of(time), _digest(r)])
            cur["trace"] = None
            return r

        slot._pack, slot._unpack = pack, unpack
        if is_out:
            slot.push_data, slot.get_data = push, get
        else:
            slot._source_updated, slot._get_data = push, get

    def plain_slot(si, slot):
        is_out = si == 0
        real_get = slot.get_data if is_out else slot._get_data

        def get(time, target):
            try:
                r = real_get(time, target)
            except Exception as e:  # noqa
                delivered[si].append([us_of(time), ["err", err_class(e)]])
                raise
            delivered[si].append([us_of(time), _digest(r)])
            return r

        if is_out:
            slot.get_data = get
        else:
            slot._get_data = get

    for si, slot in enumerate(slots):
        (instrument_slot if instrument else plain_slot)(si, slot)

    error = None
    try:
        comp.run(end_time=T(case["end"]))
    except Exception as e:  # noqa
        error = err_class(e)
    res = {"error": error, "received": received, "delivered": delivered}
    if instrument:
        for si, slot in enumerate(slots):
            events[si].append(["finalize", pattern(slot), files_of(slot)])
        known = tuple(f"{id(s)}-" for s in slots)
        res.update({
            "kinds": kinds,
            "limits": [s.memory_limit for s in slots],
            "events": events,
            "bad": roundtrip_bad,
            "roundtrips": nround[0],
            "left": len(_listing(loc)),
            "foreign": [fn for fn in _listing(loc) if not (fn.startswith(known) and fn.endswith(".npy"))][:5],
        })
    return res


def run_impl(case):
    base = tempfile.mkdtemp(prefix="verif_c10_")
    old = os.getcwd()
    try:
        loc = os.path.join(base, "spill")
        cwd = os.path.join(base, "cwd")
        os.makedirs(cwd)
        os.chdir(cwd)
        lim = _run_once(case, case["limit"], loc, True)
        lim["cwd_files"] = sorted(os.listdir(cwd))[:5]
        lim["base_files"] = sorted(x for x in os.listdir(base) if x not in ("spill", "cwd"))[:5]
        loc2 = os.path.join(base, "spill_ref")
        ref = _run_once(case, None, loc2, False)
        return {"lim": lim, "ref": {"error": ref["error"], "received": ref["received"], "delivered": ref["delivered"]}}
    finally:
        os.chdir(old)
        shutil.rmtree(base, ignore_errors=True)


# ----------------------------------------------------------------------------
# Gallina emitter
# ----------------------------------------------------------------------------
def _expected_limits(case, nslots):
    """Composition(slot_memory_limit=...) applies to every slot the user did not configure (schedule.py 151-155, 193-197)."""
    own = case.get("own") or {}
    return [own[str(si)] if str(si) in own else case["limit"] for si in range(nslots)]


def _kind_term(kind, case, si):
    if kind == "output":
        return "KOutput"
    if kind == "step":
        ads = [c for c in case["consumers"] if c["kind"] != "direct"]
        n, d = ads[si - 1].get("sp", [1, 2])
        return C("KStep", Z(n), Z(d))
    return {"next": "KNext", "prev": "KPrev", "linear": "KLinear", "avg": "KAvg", "sum": "KSum"}[kind]


def _slot_terms(case, obs, si):
    lim = obs["lim"]
    ops, res = [], []
    npush = 0
    for ev in lim["events"][si]:
        if ev[0] == "push":
            ops.append(C("Push", Z(ev[1]), N(npush), Z(ev[2])))
            npush += 1
            res.append(P(P(L(B(x) for x in ev[3]), L(N(k) for k in ev[4])), NONE))
        elif ev[0] == "pull":
            ops.append(C("Pull", N(ev[1]), Z(ev[2])))
            r = ev[3]
            rr = Some(L(Some(N(min(k, 4999))) for k in r[1])) if r[0] == "ok" else NONE
            res.append(P(P(L(B(x) for x in ev[4]), L(N(k) for k in ev[5])), Some(rr)))
        else:
            ops.append("Finalize")
            res.append(P(P(L(B(x) for x in ev[1]), L(N(k) for k in ev[2])), NONE))
    nkeys = len(case["consumers"]) if si == 0 else 1
    limit = _expected_limits(case, len(lim["events"]))[si]  # what the user configured, not what the slot ended up with
    sc = P(P(_kind_term(lim["kinds"][si], case, si), NONE if limit is None else Some(Z(limit)), L(N(i) for i in range(nkeys))),
           "(" + L(ops) + " : list (op nat nat))")
    return sc, L(res)


def coq_case(case, obs):
    return "(" + L(_slot_terms(case, obs, si)[0] for si in range(len(obs["lim"]["events"]))) + " : c10_case)"


def coq_obs(case, obs):
    return "(" + L(_slot_terms(case, obs, si)[1] for si in range(len(obs["lim"]["events"]))) + " : c10_obs)"


# ----------------------------------------------------------------------------
# property monitor
# ----------------------------------------------------------------------------
def monitor(case, obs):
    lim, ref = obs["lim"], obs["ref"]
    if ref["error"] is not None:
        # every generated composition is valid: a failing reference run must never pass silently
        return f"the composition does not run even without a memory limit: {ref['error']}"
    if lim["error"] is not None:
        return f"run with limit {case['limit']} raised {lim['error']}; the run without a limit completed"
    if lim["received"] != ref["received"]:
        for a, b in zip(lim["received"], ref["received"]):
            if a != b:
                return f"consumer {a[0]} received {a[2]} at t={a[1]} with limit {case['limit']}, {b[2]} at t={b[1]} without a limit"
        return f"consumers received {len(lim['received'])} values with the limit, {len(ref['received'])} without"
    for si, (da, db) in enumerate(zip(lim["delivered"], ref["delivered"])):
        if da != db:
            for a, b in zip(da, db):
                if a != b:
                    return f"slot {si} ({lim['kinds'][si]}) delivered {a[1]} at t={a[0]} with the limit, {b[1]} at t={b[0]} without"
            return f"slot {si} delivered {len(da)} values with the limit, {len(db)} without"
    want = _expected_limits(case, len(lim["events"]))
    if lim["limits"] != want:
        return f"slots run with memory limits {lim['limits']}, configured: {want}"
    if lim["bad"]:
        b = lim["bad"][0]
        if b[0] == "outside":
            return f"slot {b[1]} wrote publication {b[2]} to a file outside the configured location"
        return f"slot {b[1]}: publication {b[2]} read back from its file differs from what was written (load(save p) != p)"
    if lim["cwd_files"] or lim["base_files"]:
        return f"files created outside the configured location: {lim['cwd_files'] + lim['base_files']}"
    if lim["foreign"]:
        return f"unexpected entries in the spill location: {lim['foreign']}"
    if lim["left"]:
        return f"{lim['left']} file(s) remain in the spill location after the composition was finalized"
    for si, evs in enumerate(lim["events"]):
        if evs[-1][1]:
            return f"slot {si} still buffers {len(evs[-1][1])} entries after finalize"
    return _limit_semantics(lim)


def _limit_semantics(lim):
    """The limit means what it says: a payload is written to disk iff keeping it would push the bytes the
    slot holds in RAM above the limit (evaluated on the implementation's own trace)."""
    for si, evs in enumerate(lim["events"]):
        limit = lim["limits"][si]
        sizes, before = [], []
        for ev in evs:
            if ev[0] == "push":
                held = sizes[len(sizes) - len(before):] if before else []
                ram = sum(z for z, sp in zip(held, before) if not sp)
                want = limit is not None and 0 <= limit < ram + ev[2]
                got = ev[3][-1] if ev[3] else None
                if got is not want:
                    return (f"slot {si} ({lim['kinds'][si]}), limit {limit}: publication {len(sizes)} of {ev[2]} bytes was "
                            f"{'spilled' if got else 'kept in RAM'} while {ram} bytes were held in RAM")
                sizes.append(ev[2])
                before = ev[3]
            else:
                before = ev[4] if ev[0] == "pull" else ev[1]
    return None


def _slot_consumer(case, si):
    """the consumer spec whose adapter is slot si (si >= 1)"""
    ads = [c for c in case["consumers"] if c["kind"] != "direct"]
    return ads[si - 1] if 1 <= si <= len(ads) else None


def _sum_per_time_spilled_units(case, obs, failure):
    """F9: a SumOverTime(per_time=True) adapter that spilled at least one entry; reloaded entries get the
    adapter's OUTPUT units (input units * s) instead of the units they were buffered with."""
    lim = obs.get("lim") if isinstance(obs, dict) else None
    if not lim or "events" not in lim:
        return False
    for si, evs in enumerate(lim["events"]):
        c = _slot_consumer(case, si)
        if c and c["kind"] == "sum" and c.get("pt", True):
            if any(ev[0] == "push" and ev[3] and ev[3][-1] for ev in evs):
                return True
    return False


def _has_kind(kinds):
    return lambda case, obs, failure: any(c["kind"] in kinds for c in case["consumers"])


classifiers = {
    "sum_per_time_spilled_units": _sum_per_time_spilled_units,
    # classifiers of the repaired findings (status "fixed" entries suppress nothing)
    "single_entry_spilled_linear_step": _has_kind(["linear", "step"]),
    "adapter_spill_files_left": _has_kind(ADAPTERS),
    "masked_payload_spill": lambda case, obs, failure: case["payload"] in ("masked", "flexmask"),
}


def _patterns(obs):
    for evs in obs["lim"]["events"]:
        for ev in evs:
            yield ev[3] if ev[0] == "push" else ev[4] if ev[0] == "pull" else ev[1]


def nontrivial(case, obs):
    return any((True in p) and (False in p) for p in _patterns(obs))


def distribution(cases, obss):
    from collections import Counter

    kinds, pay, lims, mixed, spilled, pulls = Counter(), Counter(), Counter(), 0, 0, Counter()
    for c, o in zip(cases, obss):
        if "lim" not in o:
            continue
        for c2 in c["consumers"]:
            kinds[c2["kind"]] += 1
        pay[c["payload"]] += 1
        size = payload_size(c["payload"])
        l = c["limit"]
        lims["None" if l is None else "negative" if l < 0 else "0" if l == 0 else "huge" if l >= HUGE
             else f"{l // size}*size" + ("" if l % size == 0 else "+r")] += 1
        ps = list(_patterns(o))
        mixed += any((True in p) and (False in p) for p in ps)
        spilled += any(True in p for p in ps)
        for evs in o["lim"]["events"]:
            for ev in evs:
                if ev[0] == "pull":
                    pulls[ev[3][0] if ev[3][0] == "ok" else ev[3][1]] += 1
    return {"consumer_kinds": dict(kinds), "payloads": dict(pay), "limits": dict(lims),
            "runs_with_mixed_buffer": mixed, "runs_with_spill": spilled, "slot_pulls": dict(pulls)}


def extra_evidence(cases, obss):
    from collections import Counter

    rt = Counter()
    for c, o in zip(cases, obss):
        if "lim" in o:
            rt[c["payload"]] += o["lim"].get("roundtrips", 0)
    return {
        "load_save_roundtrips_checked_per_payload_kind": dict(rt),
        "reference_runs_failed": sum(1 for o in obss if "ref" in o and o["ref"]["error"] is not None),
        "partial": "real OS/file-system faults, id() reuse between slots of different lifetimes and the pickle format are "
                   "outside the model; the numeric combination of the unpacked payloads is the business of C08/C11/C12",
    }


def shrink_candidates(case):
    cons = case["consumers"]
    if len(cons) > 1:
        for i in range(len(cons)):
            c = dict(case)
            c["consumers"] = cons[:i] + cons[i + 1:]
            c.pop("own", None)
            yield c
    if case.get("own"):
        c = dict(case)
        c.pop("own")
        yield c
    if case["payload"] != "scalar":
        c = dict(case)
        c["payload"] = "scalar" if case["payload"] == "grid" else "grid"
        if case["limit"]:
            c["limit"] = case["limit"] * payload_size(c["payload"]) // payload_size(case["payload"])
        yield c
    if case["end"] > case["src_step"]:
        c = dict(case)
        c["end"] = case["end"] - case["src_step"]
        yield c
    if case["limit"] not in (None, 0):
        c = dict(case)
        c["limit"] = 0
        yield c
