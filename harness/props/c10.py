"""C10 — spilling data to disk is invisible and leaves no files behind.

Correspondence: REAL compositions (fm.Composition(..., slot_memory_limit, slot_memory_location=<fresh
temp dir>)) of one generator and 1-3 consumers, each linked directly or through one time-caching
adapter, are run for a sweep of memory limits.  Every buffering slot (the generator's Output and every
adapter) is instrumented at instance level: each _pack / push, each pull (get_data / _get_data), each
_unpack call is recorded together with the slot's buffer pattern (which entries are file names) and
the listing of the spill directory.  The Coq model Spill.c10_model is evaluated on exactly those
recorded op sequences (push times and sizes, pull keys and times, the limit) and must reproduce, after
every op, the spilled/in-RAM pattern, the counters of the slot's files on disk and the publication
indices handed to _unpack.  The same composition is also run with limit None; the monitor compares all
values delivered by slots and received by consumers (bit-exact), checks confinement of files to the
location, load(save p) = p per payload kind, and that the location is empty after run() returned.

Families of cases (a case is one run, or {"family": "multi", "runs": [run, ...]}):
  comp    generator -> consumers, direct or behind one time adapter (incl. consumers finer than the source)
  static  a time component owning a dynamic output "Out" AND a static output "Stat" (slot kind KStatic) read by static
          and/or ordinary inputs; the component attempts a SECOND publication of "Stat", which must be refused
          options of comp runs: "dup": [period, phase] = the source publishes TWICE for the same time (a provisional and
          a final value) on the updates n with n % period == phase; "noloc": true = Composition(slot_memory_location=None),
          no slot has a location: the slots spill into the working directory, which then IS the location
  multi   two or three compositions run one after the other IN THE SAME PROCESS with the SAME spill directory (fresh
          slots, different payload values, gc.collect() in between so that id()s / file names are reused); each is
          compared with its own limit=None run
"""
import gc
import hashlib
import os
import shutil
import tempfile

import numpy as np

from ..coqgen import B, C, L, N, NONE, P, Some, Z
from ..fin import fm, T, D, us_of, err_class

ID = "C10"
COQ_IMPORTS = "From FV Require Import Base Spill."
COQ_CHECK = "c10_check"
COQ_MODEL_OBS = "c10_model"
CASE_TIMEOUT = 30
RULE = (
    "real compositions: generator (step s) -> 1-3 consumers (steps c_i), each direct or behind "
    "NextTime/PreviousTime/LinearTime/StepTime(step)/AvgOverTime(step)/SumOverTime(step, per_time True|False), incl. consumers "
    "finer than the source; static outputs read by static/ordinary inputs with a refused second publication; 2-3 "
    "compositions in one process sharing the spill directory; sources publishing twice for one time stamp; compositions "
    "without any configured location (spilling into the working directory); payload scalar / grid array / "
    "masked array (fixed mask, flexible mask, mask varying between publications incl. EMPTY masks as nomask and as an explicit "
    "all-False array, empty info mask); slot_memory_limit in {None, -1, 0, k*nbytes, k*nbytes+-1 (k = 0..history), "
    "huge}, optionally overridden per slot; non-trivial = some slot holds at least one spilled and at least one "
    "in-RAM entry during the run (or, for limit 0 / None sweeps, at least one spill resp. none); distinct by "
    "canonical case hash"
)
TRUSTED = [
    "instance-level wrappers of push_data/_source_updated, get_data/_get_data, _pack, _unpack record the op sequence "
    "at the boundary of every buffering slot; slot.data is introspected (str entry = spilled)",
    "np.save / MaskedArray.dump / np.load and the OS file system are the save/load/fs parameters of the model; "
    "load(save p) = p is a hypothesis of the theorems, tested on every unpack of the correspondence runs",
    "id(slot) is unique among the slots alive during a run (file names of different slots do not clash)",
]
ASSUMPTIONS = [
    "payload tokens: the i-th payload packed by a slot is its publication i; files are attributed to slots by the "
    "'<id(slot)>-' prefix of their names",
    "theorems are per slot; everything else that happens in the file system is the model's Env step "
    "(arbitrary changes to files not named '<location>/<id(slot)>-*')",
    "initial file system holds no file named like the slot's spill files (fresh location / id)",
]

ADAPTERS = ["next", "prev", "linear", "step", "avg", "sum"]
KINDS = ["direct"] + ADAPTERS
# masked: fixed info mask; flexmask: Mask.FLEX, always >= 2 masked cells; varmask / varmask2: Mask.FLEX with a mask that
# varies between publications and is EMPTY for some of them (mask=False i.e. nomask, and an explicit all-False array;
# varmask starts with an empty mask, varmask2 with a non-empty one); emptymask: explicit info mask without any masked cell
PAYLOADS = ["scalar", "grid", "masked", "flexmask", "varmask", "varmask2", "emptymask"]
MASKED_PAYLOADS = ["masked", "flexmask", "varmask", "varmask2", "emptymask"]
STEP_PARAMS = [[1, 2], [0, 1], [1, 1], [1, 4], [3, 4]]
HUGE = 10**12
MASK = np.array([[True, False], [False, False], [False, True]])


def payload_size(payload):
    return 8 if payload == "scalar" else 48


# ----------------------------------------------------------------------------
# generator
# ----------------------------------------------------------------------------
def _limits(size, hist):
    ls = [None, 0, -1, HUGE]
    for k in range(0, hist + 1):
        ls += [k * size]
        if k:
            ls += [k * size - 1, k * size + 1]
    return ls


def _gen_comp(rng):
    unit = rng.choice([1, 1000, 10**6, 3600 * 10**6, 86400 * 10**6])
    s = rng.choice([1, 1, 2, 3, 5])
    nc = rng.choice([1, 1, 1, 2, 2, 3])
    cons = []
    for _ in range(nc):
        kind = rng.choice(KINDS)
        c = {"kind": kind, "step": rng.choice([1, 2, 3, 4, 5, 7]) * unit}
        if kind == "step":
            c["sp"] = rng.choice(STEP_PARAMS)
        if kind == "sum" and rng.random() < 0.4:
            c["pt"] = False
        cons.append(c)
    steps = rng.randint(3, 9)
    end = max(c["step"] for c in cons) * rng.choice([1, 2, 3]) + s * unit * rng.randint(0, steps)
    return {"payload": rng.choice(PAYLOADS), "src_step": s * unit, "consumers": cons, "end": end}


def _hist(comp):
    m = max(c["step"] for c in comp["consumers"])
    return min(8, m // comp["src_step"] + 2)


def _with(comp, limit, own=None):
    c = dict(comp)
    c["limit"] = limit
    if own:
        c["own"] = own
    return c


def _simple(kind, payload, limit, src=2, dst=3, end=9, sp=None):
    c = {"kind": kind, "step": dst * 10**6}
    if sp:
        c["sp"] = sp
    return {"payload": payload, "src_step": src * 10**6, "consumers": [c], "end": end * 10**6, "limit": limit}


def _static(payload, limit, sin="both", second=2, src=2, dst=3, end=9, nc=1, own=None):
    r = {"family": "static", "payload": payload, "limit": limit, "src_step": src * 10**6, "end": end * 10**6,
         "second_push": second,
         "consumers": [{"step": (dst + i) * 10**6, "sin": sin if i == 0 else ["static", "timed", "both"][i % 3]} for i in range(nc)]}
    if own:
        r["own"] = own
    return r


def _multi(runs):
    rs = []
    for k, r in enumerate(runs):
        r = dict(r)
        r["voff"] = 100 * (k + 1)
        rs.append(r)
    return {"family": "multi", "runs": rs}


def _fine(kind, payload, limit, src=5, dst=1, end=12, ist=None, sp=None, pt=True):
    c = {"kind": kind, "step": dst * 10**6}
    if ist is not None:
        c["ist"] = ist
    if sp:
        c["sp"] = sp
    if kind == "sum" and not pt:
        c["pt"] = False
    return {"payload": payload, "src_step": src * 10**6, "consumers": [c], "end": end * 10**6, "limit": limit}


def _dup(kind, payload, limit, dup=(1, 0), src=2, dst=2, end=8, sp=None, noloc=False, pt=True):
    """a source that publishes twice for one time stamp (AvgOverTime / SumOverTime divide by a zero-length interval,
    with or without a limit, when a request passes over such a pair: their consumer step divides the source step)"""
    r = _simple(kind, payload, limit, src=src, dst=dst, end=end, sp=sp)
    r["dup"] = list(dup)
    if kind == "sum" and not pt:
        r["consumers"][0]["pt"] = False
    if noloc:
        r["noloc"] = True
    return r


def _noloc(run):
    r = dict(run)
    r["noloc"] = True
    return r


def _corpus():
    cs = []
    # seeded C10_l: a second publication for the time of the latest one must not orphan the file of the first
    cs.append(_dup("direct", "scalar", 0))
    cs.append(_dup("next", "grid", 0, dup=(2, 1), src=1, dst=3, end=9))
    cs.append(_dup("avg", "scalar", 8, src=2, dst=1, end=8))
    cs.append(_dup("linear", "varmask", 48, dup=(2, 0), src=1, dst=4, end=12))
    # seeded C10_m: no spill location configured at all (the working directory is the location)
    cs.append(_noloc(_simple("direct", "scalar", 0)))
    cs.append(_noloc(_simple("sum", "grid", 48, src=1, dst=3, end=9)))
    cs.append(_noloc(_static("grid", 0, sin="both")))
    cs.append(_dup("prev", "masked", 0, noloc=True))
    # seeded C10_c: the file of a spilled STATIC publication must be gone after finalize
    cs.append(_static("grid", 0, sin="both"))
    cs.append(_static("masked", 24, sin="timed"))
    # seeded C20_d: a second publication of a spilled static value must be refused
    cs.append(_static("scalar", 0, sin="static", second=1))
    # seeded C11_d: later slots reusing id()/file names in the same spill directory
    cs.append(_multi([_simple("linear", "grid", 0, end=3), _simple("linear", "grid", 0, end=3), _simple("linear", "grid", 0, end=3)]))
    cs.append(_multi([_simple("next", "scalar", 8, src=1, dst=3), _simple("next", "scalar", 8, src=1, dst=3)]))
    # seeded C12_d: several pulls between two publications behind an integration adapter, limit crossed
    cs.append(_fine("avg", "grid", 48))
    cs.append(_fine("sum", "scalar", 8, ist=[1, 2], pt=False))
    # F3: single-entry spilled buffer of LinearTime / StepTime right after connect (limit 0)
    cs.append(_simple("linear", "grid", 0))
    cs.append(_simple("step", "grid", 0, sp=[1, 2]))
    # F4: adapter files at finalize
    cs.append(_simple("next", "grid", 0))
    cs.append(_simple("avg", "scalar", 0))
    # F5: masked payloads
    cs.append(_simple("direct", "masked", 0))
    cs.append(_simple("sum", "flexmask", 48))
    # seeded C10_f: masked payloads whose mask is EMPTY at a spilled publication (nomask / explicit all-False array)
    cs.append(_simple("direct", "varmask", 0))
    cs.append(_simple("linear", "varmask2", 0))
    cs.append(_simple("avg", "varmask2", 48, src=1, dst=4, end=12))
    cs.append(_simple("next", "emptymask", 0))
    cs.append(_static("varmask", 0, sin="both"))
    # tests/core/test_sdk.py::test_memory_limit-like: limit crossed mid run
    cs.append(_simple("direct", "grid", 2 * 48, src=1, dst=5, end=15))
    # F9 (found by this check): SumOverTime(per_time=True) reloads spilled entries with its OUTPUT units
    cs.append(_simple("sum", "scalar", 0, src=1, dst=2, end=3))
    cs.append({"payload": "grid", "src_step": 10**6, "end": 6 * 10**6, "limit": 48,
               "consumers": [{"kind": "sum", "step": 3 * 10**6, "pt": False}]})
    cs.append({"payload": "scalar", "src_step": 10**6, "end": 12 * 10**6, "limit": 16,
               "consumers": [{"kind": "direct", "step": 4 * 10**6}, {"kind": "avg", "step": 6 * 10**6}]})
    cs.append({"payload": "grid", "src_step": 10**6, "end": 12 * 10**6, "limit": None, "own": {"0": 48, "1": 0},
               "consumers": [{"kind": "linear", "step": 5 * 10**6}, {"kind": "direct", "step": 3 * 10**6}]})
    return cs


CORPUS = _corpus()


def generate(rng, tier):
    ncomp = 90 if tier == "quick" else 900
    cases = list(CORPUS)
    # every slot kind x payload kind x {0, one payload, None}: the systematic part
    for kind in KINDS:
        for payload in PAYLOADS:
            size = payload_size(payload)
            for lim in ([0, size, 2 * size + 1] if tier == "quick" else _limits(size, 4)):
                cases.append(_simple(kind, payload, lim, src=rng.choice([1, 2, 3]), dst=rng.choice([2, 3, 5, 7]),
                                     end=rng.choice([9, 12, 15]), sp=rng.choice(STEP_PARAMS) if kind == "step" else None))
    for _ in range(ncomp):
        comp = _gen_comp(rng)
        size = payload_size(comp["payload"])
        lims = _limits(size, _hist(comp))
        if tier == "quick":
            lims = [0, None] + rng.sample(lims, min(4, len(lims)))
        for lim in lims:
            own = None
            if rng.random() < 0.15:
                nslots = 1 + sum(1 for c in comp["consumers"] if c["kind"] != "direct")
                own = {str(rng.randrange(nslots)): rng.choice([0, size, 2 * size, HUGE])}
            cases.append(_with(comp, lim, own))
            if rng.random() < 0.08:
                cases[-1] = _noloc(cases[-1])
    # two publications for one time stamp; no location configured
    for kind in KINDS:
        for payload in (["scalar", "grid", "varmask"] if tier == "quick" else PAYLOADS):
            size = payload_size(payload)
            integ = kind in ("avg", "sum")
            src = rng.choice([2, 4] if integ else [1, 2, 3])
            dst = rng.choice([d for d in (1, 2, 4) if src % d == 0] if integ else [1, 2, 3, 5])
            for lim in ([0, rng.choice([size, 2 * size + 1, 3 * size])] if tier == "quick" else [0, size, 2 * size, 2 * size + 1, 4 * size, None]):
                cases.append(_dup(kind, payload, lim, dup=rng.choice([(1, 0), (1, 0), (2, 0), (2, 1), (3, 1)]), src=src, dst=dst,
                                  end=rng.choice([8, 12]), sp=rng.choice(STEP_PARAMS) if kind == "step" else None,
                                  noloc=rng.random() < 0.25, pt=rng.random() < 0.6))
            cases.append(_noloc(_simple(kind, payload, rng.choice([0, size, 2 * size]), src=rng.choice([1, 2, 3]),
                                        dst=rng.choice([2, 3, 5]), end=rng.choice([9, 12]),
                                        sp=rng.choice(STEP_PARAMS) if kind == "step" else None)))
    for payload in ["scalar", "masked"]:
        for lim in [0, None, payload_size(payload) // 2]:
            cases.append(_noloc(_static(payload, lim, sin=rng.choice(["static", "timed", "both"]))))
    # static outputs
    for payload in PAYLOADS:
        size = payload_size(payload)
        for lim in [None, 0, size // 2, HUGE] + ([size, size - 1, -1] if tier != "quick" else []):
            for sin in ["static", "timed", "both"]:
                cases.append(_static(payload, lim, sin=sin, second=rng.choice([1, 2, 3]), src=rng.choice([1, 2, 3]),
                                     dst=rng.choice([1, 2, 3, 5]), end=rng.choice([6, 9]), nc=rng.choice([1, 1, 2, 3])))
        cases.append(_static(payload, None, sin="both", own={"1": 0}))
        cases.append(_static(payload, 0, sin="timed", own={"1": HUGE}, nc=2))
    # consumers finer than the source behind the interpolating / integrating adapters, limit crossed mid-run
    for _ in range(40 if tier == "quick" else 600):
        kind = rng.choice(["avg", "avg", "sum", "sum", "linear", "step"])
        payload = rng.choice(PAYLOADS)
        size = payload_size(payload)
        cases.append(_fine(kind, payload, rng.choice([0, size, size + 1, 2 * size, 2 * size + 1, 3 * size]),
                           src=rng.choice([3, 4, 5, 7]), dst=rng.choice([1, 1, 2]), end=rng.choice([10, 14, 21]),
                           ist=rng.choice([None, "lin", [1, 2], [1, 4], [1, 1], [0, 1]]) if kind in ("avg", "sum") else None,
                           sp=rng.choice(STEP_PARAMS) if kind == "step" else None, pt=rng.random() < 0.6))
    # several compositions, one process, one spill directory
    for _ in range(30 if tier == "quick" else 300):
        n = rng.choice([2, 3, 3])
        if rng.random() < 0.6:
            comp = _gen_comp(rng)
            size = payload_size(comp["payload"])
            runs = [_with(comp, rng.choice([0, 0, size, 2 * size])) for _ in range(n)]
        else:
            runs = []
            for _k in range(n):
                comp = _gen_comp(rng)
                runs.append(_with(comp, rng.choice([0, payload_size(comp["payload"])])))
        if rng.random() < 0.2:
            runs[rng.randrange(n)] = _static(rng.choice(PAYLOADS), 0, sin=rng.choice(["static", "timed", "both"]))
        cases.append(_multi(runs))
    return cases


def _runs(case):
    return case["runs"] if case.get("family") == "multi" else [case]


# ----------------------------------------------------------------------------
# implementation driver
# ----------------------------------------------------------------------------
def _digest(q):
    """Exact, canonical description of a delivered quantity (bit pattern, mask, units)."""
    if isinstance(q, str):
        return ["raw", "str", "file-name"]
    try:
        units = str(q.units)
        m = q.magnitude
    except AttributeError:
        return ["raw", type(q).__name__, str(q)[:60]]
    if isinstance(m, str):
        return ["raw", "str", "file-name"]
    masked = bool(np.ma.isMaskedArray(m))
    mask = np.ma.getmaskarray(m) if masked else np.zeros(np.shape(m), dtype=bool)
    data = np.ascontiguousarray(np.ma.filled(m, 0.0) if masked else np.asarray(m), dtype=np.float64)
    h = hashlib.sha1(data.tobytes() + b"|" + np.ascontiguousarray(mask).tobytes()).hexdigest()[:16]
    flat = data.reshape(-1)
    return [units, masked, list(data.shape), h, float(flat[0]) if flat.size else 0.0, float(flat[-1]) if flat.size else 0.0]


def _same_payload(a, b):
    """load(save p) = p: same type (masked or not), same bits, same mask."""
    if bool(np.ma.isMaskedArray(a)) != bool(np.ma.isMaskedArray(b)):
        return False
    if np.shape(a) != np.shape(b):
        return False
    if np.ma.isMaskedArray(a):
        if np.ma.getmaskarray(a).tobytes() != np.ma.getmaskarray(b).tobytes():
            return False
        return np.ma.getdata(a).tobytes() == np.ma.getdata(b).tobytes()
    return np.asarray(a).tobytes() == np.asarray(b).tobytes()


_DEAD_IDS = set()  # id()s of the slots of the compositions already finished in the current multi case


def _hunt(make, tries=1500):
    """Build a slot, preferring one whose id() (hence whose spill file names) a finished slot already used:
    CPython hands the addresses of dead objects out again, the harness only makes that likely instead of rare."""
    if not _DEAD_IDS:
        return make()
    rejected = []
    obj = None
    for _ in range(tries):
        obj = make()
        if id(obj) in _DEAD_IDS:
            break
        rejected.append(obj)
    del rejected
    return obj


def _make_adapter(c):
    return _hunt(lambda: _make_adapter0(c))


def _make_adapter0(c):
    k = c["kind"]
    if k == "next":
        return fm.adapters.NextTime()
    if k == "prev":
        return fm.adapters.PreviousTime()
    if k == "linear":
        return fm.adapters.LinearTime()
    if k == "step":
        n, d = c.get("sp", [1, 2])
        return fm.adapters.StepTime(step=n / d)
    ist = c.get("ist")
    stepv = None if ist == "lin" else (ist[0] / ist[1] if ist else None)
    if k == "avg":
        return fm.adapters.AvgOverTime() if ist is None else fm.adapters.AvgOverTime(step=stepv)
    if k == "sum":
        if ist is None:
            return fm.adapters.SumOverTime(per_time=bool(c.get("pt", True)))
        return fm.adapters.SumOverTime(step=stepv, per_time=bool(c.get("pt", True)))
    raise ValueError(k)


def _listing(loc):
    try:
        return sorted(os.listdir(loc))
    except FileNotFoundError:
        return ["<location missing>"]


def _tus(t):
    return 0 if t is None else us_of(t)


def _payload_tools(run):
    payload = run["payload"]
    voff = float(run.get("voff", 0))
    if payload == "scalar":
        kw = dict(grid=fm.NoGrid(), units="m")
    else:
        kw = dict(grid=fm.UniformGrid((4, 3)), units="m",
                  mask=(MASK if payload == "masked" else np.zeros((3, 2), dtype=bool) if payload == "emptymask"
                        else fm.Mask.FLEX))
    counter = [0]

    def value(i):
        if payload == "scalar":
            return float(3 * i + 1) + voff
        d = np.arange(6.0).reshape(3, 2) * 0.5 + 8.0 * i + voff
        if payload == "masked":
            return np.ma.array(d, mask=MASK)
        if payload == "flexmask":
            m = MASK.copy()
            m[1, i % 2] = True
            return np.ma.array(d, mask=m)
        if payload in ("varmask", "varmask2"):
            ph = (i + (1 if payload == "varmask2" else 0)) % 4
            if ph == 0:
                return np.ma.array(d, mask=False)  # nomask
            if ph == 2:
                return np.ma.array(d, mask=np.zeros((3, 2), dtype=bool))  # explicit all-False mask
            m = MASK.copy() if ph == 1 else ~MASK
            return np.ma.array(d, mask=m)
        if payload == "emptymask" and i % 2:
            return np.ma.array(d, mask=np.zeros((3, 2), dtype=bool))
        return d

    def gen(_t=None):
        i = counter[0]
        counter[0] += 1
        return value(i)

    return kw, gen, value


def _build_comp(run, received, _extra):
    """generator -> consumers, each direct or behind one time adapter"""
    kw, gen, _value = _payload_tools(run)
    if run.get("dup"):
        period, phase = run["dup"]

        class DupSrc(fm.TimeComponent):
            """a source that corrects itself: two publications for one time stamp"""

            def __init__(self):
                super().__init__()
                self.time = T(0)
                self._n = 0
                self._first = None

            def _initialize(self):
                self.outputs.add(name="Out", info=fm.Info(time=self.time, **kw))
                self.create_connector()

            def _connect(self, start_time):
                if self._first is None:
                    self._first = {"Out": gen()}
                self.try_connect(start_time, push_data=self._first)

            def _validate(self):
                pass

            def _next_time(self):
                return self.time + D(run["src_step"])

            def _update(self):
                self.time += D(run["src_step"])
                self._n += 1
                if self._n % period == phase:
                    self.outputs["Out"].push_data(gen(), self.time)  # provisional
                self.outputs["Out"].push_data(gen(), self.time)

            def _finalize(self):
                pass

        src = DupSrc().with_name("Src")
    else:
        src = fm.components.CallbackGenerator({"Out": (gen, fm.Info(None, **kw))}, T(0), D(run["src_step"]))
    comps = [src]
    for i, c in enumerate(run["consumers"]):
        def cb(inp, t, i=i):
            received.append([i, us_of(t), _digest(inp["In"])])
            return {}
        ckw = dict(kw)
        if c["kind"] == "sum" and c.get("pt", True):
            ckw["units"] = None  # SumOverTime(per_time=True) delivers [units * s]
        comps.append(fm.components.CallbackComponent({"In": fm.Info(None, **ckw)}, {}, cb, T(0), D(c["step"])).with_name(f"C{i}"))

    def wire():
        out = src.outputs["Out"]
        slots, kinds, nkeys = [out], ["output"], [len(run["consumers"])]
        for i, c in enumerate(run["consumers"]):
            if c["kind"] == "direct":
                out >> comps[i + 1].inputs["In"]
            else:
                ada = _make_adapter(c)
                out >> ada >> comps[i + 1].inputs["In"]
                slots.append(ada)
                kinds.append(c["kind"])
                nkeys.append(1)
        return slots, kinds, nkeys

    return comps, wire


def _build_static(run, received, extra):
    """a time component with a dynamic output "Out" and a static output "Stat"; consumers read "Out" directly and
    "Stat" through a static input "S" and/or an ordinary input "ST"; the source tries to publish "Stat" again"""
    kw, gen, value = _payload_tools(run)
    extra["second"] = []

    class Src(fm.TimeComponent):
        def __init__(self):
            super().__init__()
            self.time = T(0)
            self._n = 0
            self._first = None

        def _initialize(self):
            self.outputs.add(io=_hunt(lambda: fm.Output(name="Out", info=fm.Info(time=self.time, **kw))))
            self.outputs.add(io=_hunt(lambda: fm.Output(name="Stat", static=True, info=fm.Info(time=None, **kw))))
            self.create_connector()

        def _connect(self, start_time):
            if self._first is None:
                self._first = {"Out": gen(), "Stat": value(50)}
            self.try_connect(start_time, push_data=self._first)

        def _validate(self):
            pass

        def _next_time(self):
            return self.time + D(run["src_step"])

        def _update(self):
            self.time += D(run["src_step"])
            self._n += 1
            self.outputs["Out"].push_data(gen(), self.time)
            if self._n == run.get("second_push"):
                try:
                    self.outputs["Stat"].push_data(value(60), None)
                    extra["second"].append("accepted")
                except fm.errors.FinamStaticDataError:
                    extra["second"].append("refused")
                except Exception as e:  # noqa
                    extra["second"].append(err_class(e))

        def _finalize(self):
            pass

    class Dst(fm.TimeComponent):
        def __init__(self, i, c):
            super().__init__()
            self.time = T(0)
            self._i, self._c, self._init = i, c, False

        def _initialize(self):
            self.inputs.add(name="In", info=fm.Info(time=self.time, **kw))
            if self._c["sin"] in ("static", "both"):
                self.inputs.add(name="S", static=True, info=fm.Info(time=None, **kw))
            if self._c["sin"] in ("timed", "both"):
                self.inputs.add(name="ST", info=fm.Info(time=self.time, **kw))
            self.create_connector(pull_data=list(self.inputs.keys()))

        def _connect(self, start_time):
            self.try_connect(start_time)
            if self.connector.all_data_pulled and not self._init:
                self._init = True
                for name in self.inputs.keys():
                    received.append([self._i, name, us_of(self.time), _digest(self.connector.in_data[name])])

        def _validate(self):
            pass

        def _next_time(self):
            return self.time + D(self._c["step"])

        def _update(self):
            self.time += D(self._c["step"])
            for name, inp in self.inputs.items():
                received.append([self._i, name, us_of(self.time), _digest(inp.pull_data(self.time))])

        def _finalize(self):
            pass

    src = Src().with_name("Src")
    dsts = [Dst(i, c).with_name(f"C{i}") for i, c in enumerate(run["consumers"])]

    def wire():
        out, stat = src.outputs["Out"], src.outputs["Stat"]
        n = 0
        for dst in dsts:
            out >> dst.inputs["In"]
            for name in ("S", "ST"):
                if name in dst.inputs:
                    stat >> dst.inputs[name]
                    n += 1
        return [out, stat], ["output", "static"], [len(dsts), n]

    return [src] + dsts, wire


def _run_once(run, limit, loc, instrument):
    received, extra = [], {}
    comps, wire = (_build_static if run.get("family") == "static" else _build_comp)(run, received, extra)
    if run.get("noloc"):
        # nothing configured: join(memory_location or "", name) = the working directory is the location
        comp = fm.Composition(comps, print_log=False, slot_memory_limit=limit, slot_memory_location=None)
        loc = os.getcwd()
    else:
        comp = fm.Composition(comps, print_log=False, slot_memory_limit=limit, slot_memory_location=loc)
    slots, kinds, nkeys = wire()
    if instrument:  # per-slot limits set by the user win over the composition's (schedule.py 152, 194)
        for si, own_lim in (run.get("own") or {}).items():
            if int(si) < len(slots):
                slots[int(si)].memory_limit = own_lim

    reused_from = set(_DEAD_IDS)
    events = [[] for _ in slots]
    delivered = [[] for _ in slots]
    roundtrip_bad = []
    nround = [0]
    keep = []  # keeps packed objects alive during the run (no id() reuse within a run)
    size0 = payload_size(run["payload"])

    def files_of(slot):
        pre = f"{id(slot)}-"
        res = []
        for fn in _listing(loc):
            if fn.startswith(pre) and fn.endswith(".npy"):
                try:
                    res.append(int(fn[len(pre):-4]))
                except ValueError:
                    res.append(4998)
        return sorted(res)

    def pattern(slot, extra_entry=None):
        p = [isinstance(e[1], str) for e in slot.data]
        if extra_entry is not None:
            p.append(extra_entry)
        return p

    def instrument_slot(si, slot):
        cur = {"time": None, "trace": None, "npack": 0}
        by_file, by_obj, orig = {}, {}, {}
        real_pack, real_unpack = slot._pack, slot._unpack
        is_out = kinds[si] in ("output", "static")
        real_push = slot.push_data if is_out else slot._source_updated
        real_get = slot.get_data if is_out else slot._get_data
        keyidx = {}

        def pack(data):
            size = int(data.nbytes)
            r = real_pack(data)
            idx = cur["npack"]
            cur["npack"] += 1
            keep.append(data)
            if isinstance(r, str):
                by_file[os.path.basename(r)] = idx
                orig[os.path.basename(r)] = (np.ma.copy(data.magnitude) if np.ma.isMaskedArray(data.magnitude)
                                             else np.array(data.magnitude, copy=True), str(data.units))
                if os.path.dirname(os.path.abspath(r)) != os.path.abspath(loc):
                    roundtrip_bad.append(["outside", si, idx])
            else:
                by_obj[id(r)] = idx
                keep.append(r)
            events[si].append(["push", _tus(cur["time"]), size, pattern(slot, isinstance(r, str)), files_of(slot)])
            return r

        def unpack(where):
            r = real_unpack(where)
            if isinstance(where, str):
                idx = by_file.get(os.path.basename(where), 4999)
                o = orig.get(os.path.basename(where))
                nround[0] += 1
                try:
                    if o is None or not _same_payload(o[0], r.magnitude) or str(r.units) != o[1]:
                        roundtrip_bad.append(["roundtrip", si, idx])
                except Exception:  # noqa
                    roundtrip_bad.append(["roundtrip", si, idx])
            else:
                idx = by_obj.get(id(where), 4999)
            if cur["trace"] is not None:
                cur["trace"].append(idx)
            return r

        def push(*a, **k):
            # Output.push_data(data, time) / Adapter._source_updated(time)
            cur["time"] = a[-1] if a else k.get("time")
            n0 = cur["npack"]
            try:
                return real_push(*a, **k)
            except Exception as e:  # noqa
                if kinds[si] == "static" and cur["npack"] == n0:
                    # refused before anything was packed
                    events[si].append(["push", _tus(cur["time"]), size0, pattern(slot), files_of(slot), err_class(e)])
                raise

        def get(time, target):
            cur["trace"] = []
            key = keyidx.setdefault(id(target), len(keyidx)) if is_out else 0
            try:
                r = real_get(time, target)
            except Exception as e:  # noqa
                events[si].append(["pull", key, _tus(time), ["err", err_class(e)], pattern(slot), files_of(slot)])
                delivered[si].append([_tus(time), ["err", err_class(e)]])
                cur["trace"] = None
                raise
            events[si].append(["pull", key, _tus(time), ["ok", list(cur["trace"])], pattern(slot), files_of(slot)])
            delivered[si].append([_tus(time), _digest(r)])
            cur["trace"] = None
            return r

        slot._pack, slot._unpack = pack, unpack
        if is_out:
            slot.push_data, slot.get_data = push, get
        else:
            slot._source_updated, slot._get_data = push, get

    def plain_slot(si, slot):
        is_out = kinds[si] in ("output", "static")
        real_get = slot.get_data if is_out else slot._get_data

        def get(time, target):
            try:
                r = real_get(time, target)
            except Exception as e:  # noqa
                delivered[si].append([_tus(time), ["err", err_class(e)]])
                raise
            delivered[si].append([_tus(time), _digest(r)])
            return r

        if is_out:
            slot.get_data = get
        else:
            slot._get_data = get

    for si, slot in enumerate(slots):
        (instrument_slot if instrument else plain_slot)(si, slot)

    error = None
    try:
        comp.run(end_time=T(run["end"]))
    except Exception as e:  # noqa
        error = err_class(e)
    res = {"error": error, "received": received, "delivered": delivered, "second": extra.get("second", [])}
    if instrument:
        for si, slot in enumerate(slots):
            events[si].append(["finalize", pattern(slot), files_of(slot)])
        known = tuple(f"{id(s)}-" for s in slots)
        _DEAD_IDS.update(id(s) for s in slots)
        res.update({
            "reused_ids": sum(1 for s in slots if id(s) in reused_from),
            "kinds": kinds,
            "nkeys": nkeys,
            "limits": [s.memory_limit for s in slots],
            "events": events,
            "bad": roundtrip_bad,
            "roundtrips": nround[0],
            "left": len(_listing(loc)),
            "foreign": [fn for fn in _listing(loc) if not (fn.startswith(known) and fn.endswith(".npy"))][:5],
        })
    return res


def run_impl(case):
    base = tempfile.mkdtemp(prefix="verif_c10_")
    old = os.getcwd()
    try:
        loc = os.path.join(base, "spill")  # shared by all runs of a multi case
        cwd = os.path.join(base, "cwd")
        os.makedirs(cwd)
        os.chdir(cwd)
        runs = _runs(case)
        _DEAD_IDS.clear()
        lims = []
        for run in runs:
            gc.collect()
            lim = _run_once(run, run["limit"], loc, True)
            lim["cwd_files"] = [] if run.get("noloc") else sorted(os.listdir(cwd))[:5]  # noloc: cwd is checked as "left"
            lim["base_files"] = sorted(x for x in os.listdir(base) if x not in ("spill", "cwd"))[:5]
            lims.append(lim)
            gc.collect()  # the slots of this composition are garbage now: their id()s may be handed out again
        out = []
        for k, run in enumerate(runs):
            ref = _run_once(run, None, os.path.join(base, f"spill_ref{k}"), False)
            out.append({"lim": lims[k], "ref": {key: ref[key] for key in ("error", "received", "delivered", "second")}})
        _DEAD_IDS.clear()
        return {"runs": out}
    finally:
        os.chdir(old)
        shutil.rmtree(base, ignore_errors=True)


# ----------------------------------------------------------------------------
# Gallina emitter
# ----------------------------------------------------------------------------
def _expected_limits(run, nslots):
    """Composition(slot_memory_limit=...) applies to every slot the user did not configure (schedule.py 151-155, 193-197)."""
    own = run.get("own") or {}
    return [own[str(si)] if str(si) in own else run["limit"] for si in range(nslots)]


def _slot_consumer(run, si):
    """the consumer spec whose adapter is slot si (si >= 1) of a comp run"""
    if run.get("family") == "static":
        return None
    ads = [c for c in run["consumers"] if c["kind"] != "direct"]
    return ads[si - 1] if 1 <= si <= len(ads) else None


def _kind_term(kind, run, si):
    if kind == "output":
        return "KOutput"
    if kind == "static":
        return "KStatic"
    if kind == "step":
        n, d = _slot_consumer(run, si).get("sp", [1, 2])
        return C("KStep", Z(n), Z(d))
    return {"next": "KNext", "prev": "KPrev", "linear": "KLinear", "avg": "KAvg", "sum": "KSum"}[kind]


def _slot_terms(run, lim, si):
    ops, res = [], []
    npush = 0
    for ev in lim["events"][si]:
        if ev[0] == "push":
            ops.append(C("Push", Z(ev[1]), N(npush), Z(ev[2])))
            if len(ev) <= 5:  # accepted (a refused push packs nothing)
                npush += 1
            res.append(P(P(L(B(x) for x in ev[3]), L(N(k) for k in ev[4])), NONE))
        elif ev[0] == "pull":
            ops.append(C("Pull", N(ev[1]), Z(ev[2])))
            r = ev[3]
            rr = Some(L(Some(N(min(k, 4999))) for k in r[1])) if r[0] == "ok" else NONE
            res.append(P(P(L(B(x) for x in ev[4]), L(N(k) for k in ev[5])), Some(rr)))
        else:
            ops.append("Finalize")
            res.append(P(P(L(B(x) for x in ev[1]), L(N(k) for k in ev[2])), NONE))
    limit = _expected_limits(run, len(lim["events"]))[si]  # what the user configured, not what the slot ended up with
    sc = P(P(_kind_term(lim["kinds"][si], run, si), NONE if limit is None else Some(Z(limit)),
             L(N(i) for i in range(lim["nkeys"][si]))),
           "(" + L(ops) + " : list (op nat nat))")
    return sc, L(res)


def _all_slot_terms(case, obs, which):
    terms = []
    for run, ro in zip(_runs(case), obs["runs"]):
        for si in range(len(ro["lim"]["events"])):
            terms.append(_slot_terms(run, ro["lim"], si)[which])
    return terms


def coq_case(case, obs):
    return "(" + L(_all_slot_terms(case, obs, 0)) + " : c10_case)"


def coq_obs(case, obs):
    return "(" + L(_all_slot_terms(case, obs, 1)) + " : c10_obs)"


# ----------------------------------------------------------------------------
# property monitor
# ----------------------------------------------------------------------------
def monitor(case, obs):
    runs = _runs(case)
    for k, (run, ro) in enumerate(zip(runs, obs["runs"])):
        f = _monitor_run(run, ro)
        if f:
            if len(runs) > 1:
                return f"composition {k + 1} of {len(runs)} run in one process with one spill directory: {f}"
            return f
    return None


def _monitor_run(case, obs):
    lim, ref = obs["lim"], obs["ref"]
    if ref["error"] is not None:
        # every generated composition is valid: a failing reference run must never pass silently
        return f"the composition does not run even without a memory limit: {ref['error']}"
    if lim["error"] is not None:
        return f"run with limit {case['limit']} raised {lim['error']}; the run without a limit completed"
    for which, r in (("with the limit", lim), ("without a limit", ref)):
        if any(x != "refused" for x in r["second"]):
            return f"a second publication of the static output was not refused {which} (limit {case['limit']}): {r['second']}"
    if lim["received"] != ref["received"]:
        for a, b in zip(lim["received"], ref["received"]):
            if a != b:
                return f"consumer {a[0]} received {a[-1]} at {a[1:-1]} with limit {case['limit']}, {b[-1]} at {b[1:-1]} without a limit"
        return f"consumers received {len(lim['received'])} values with the limit, {len(ref['received'])} without"
    for si, (da, db) in enumerate(zip(lim["delivered"], ref["delivered"])):
        if da != db:
            for a, b in zip(da, db):
                if a != b:
                    return f"slot {si} ({lim['kinds'][si]}) delivered {a[1]} at t={a[0]} with the limit, {b[1]} at t={b[0]} without"
            return f"slot {si} delivered {len(da)} values with the limit, {len(db)} without"
    want = _expected_limits(case, len(lim["events"]))
    if lim["limits"] != want:
        return f"slots run with memory limits {lim['limits']}, configured: {want}"
    if lim["bad"]:
        b = lim["bad"][0]
        if b[0] == "outside":
            return f"slot {b[1]} wrote publication {b[2]} to a file outside the configured location"
        return f"slot {b[1]}: publication {b[2]} read back from its file differs from what was written (load(save p) != p)"
    if lim["cwd_files"] or lim["base_files"]:
        return f"files created outside the configured location: {lim['cwd_files'] + lim['base_files']}"
    if lim["foreign"]:
        return f"unexpected entries in the spill location: {lim['foreign']}"
    if lim["left"]:
        return f"{lim['left']} file(s) remain in the spill location after the composition was finalized"
    for si, evs in enumerate(lim["events"]):
        if evs[-1][1]:
            return f"slot {si} still buffers {len(evs[-1][1])} entries after finalize"
        if lim["kinds"][si] == "static":
            n = max([len(ev[3]) for ev in evs if ev[0] == "push"] + [0])
            if n > 1:
                return f"static slot {si} buffered {n} publications"
    return _limit_semantics(lim)


def _limit_semantics(lim):
    """The limit means what it says: a payload is written to disk iff keeping it would push the bytes the
    slot holds in RAM above the limit (evaluated on the implementation's own trace)."""
    for si, evs in enumerate(lim["events"]):
        limit = lim["limits"][si]
        sizes, before = [], []
        for ev in evs:
            if ev[0] == "push" and len(ev) <= 5:
                held = sizes[len(sizes) - len(before):] if before else []
                ram = sum(z for z, sp in zip(held, before) if not sp)
                want = limit is not None and 0 <= limit < ram + ev[2]
                got = ev[3][-1] if ev[3] else None
                if got is not want:
                    return (f"slot {si} ({lim['kinds'][si]}), limit {limit}: publication {len(sizes)} of {ev[2]} bytes was "
                            f"{'spilled' if got else 'kept in RAM'} while {ram} bytes were held in RAM")
                sizes.append(ev[2])
                before = ev[3]
            else:
                before = ev[4] if ev[0] == "pull" else ev[3] if ev[0] == "push" else ev[1]
    return None


def _run_pairs(case, obs):
    if not isinstance(obs, dict) or "runs" not in obs:
        return []
    return list(zip(_runs(case), obs["runs"]))


def _sum_per_time_spilled_units(case, obs, failure):
    """F9 (fixed by fa847ec): a SumOverTime(per_time=True) adapter that spilled at least one entry; reloaded entries
    got the adapter's OUTPUT units (input units * s) instead of the units they were buffered with."""
    for run, ro in _run_pairs(case, obs):
        lim = ro["lim"]
        for si, evs in enumerate(lim.get("events", [])):
            c = _slot_consumer(run, si)
            if c and c["kind"] == "sum" and c.get("pt", True):
                if any(ev[0] == "push" and ev[3] and ev[3][-1] for ev in evs):
                    return True
    return False


def _has_kind(kinds):
    return lambda case, obs, failure: any(c.get("kind") in kinds for run in _runs(case) for c in run["consumers"])


classifiers = {
    "sum_per_time_spilled_units": _sum_per_time_spilled_units,
    # classifiers of the repaired findings (status "fixed" entries suppress nothing)
    "single_entry_spilled_linear_step": _has_kind(["linear", "step"]),
    "adapter_spill_files_left": _has_kind(ADAPTERS),
    "masked_payload_spill": lambda case, obs, failure: any(r["payload"] in MASKED_PAYLOADS for r in _runs(case)),
}


def _patterns(obs):
    for ro in obs.get("runs", []):
        for evs in ro["lim"]["events"]:
            for ev in evs:
                yield ev[3] if ev[0] == "push" else ev[4] if ev[0] == "pull" else ev[1]


def nontrivial(case, obs):
    if case.get("family") == "static":
        # one entry only: non-trivial = the static publication was spilled and read back
        return any(True in p for p in _patterns(obs))
    return any((True in p) and (False in p) for p in _patterns(obs))


def _dup_first_spilled(lim):
    """some slot got two publications for one time and the first of them was written to a file"""
    for evs in lim.get("events", []):
        last = None
        for ev in evs:
            if ev[0] == "push" and len(ev) <= 5:
                if last is not None and last[0] == ev[1] and last[1]:
                    return True
                last = (ev[1], ev[3][-1] if ev[3] else False)
    return False


def distribution(cases, obss):
    from collections import Counter

    fam, kinds, pay, lims, mixed, spilled, pulls, second, finer = Counter(), Counter(), Counter(), Counter(), 0, 0, Counter(), Counter(), 0
    for c, o in zip(cases, obss):
        if "runs" not in o:
            continue
        fam[c.get("family", "comp")] += 1
        for run, ro in zip(_runs(c), o["runs"]):
            for c2 in run["consumers"]:
                kinds[c2.get("kind", "static:" + c2.get("sin", ""))] += 1
                if c2.get("kind") in ("avg", "sum", "linear", "step") and 2 * c2["step"] <= run["src_step"]:
                    finer += 1
            pay[run["payload"]] += 1
            if run.get("dup"):
                fam["runs with two publications per time stamp"] += 1
                fam["... whose first of a pair was spilled"] += _dup_first_spilled(ro["lim"])
            if run.get("noloc"):
                fam["runs without a configured location"] += 1
            size = payload_size(run["payload"])
            l = run["limit"]
            lims["None" if l is None else "negative" if l < 0 else "0" if l == 0 else "huge" if l >= HUGE
                 else "half" if l < size else f"{l // size}*size" + ("" if l % size == 0 else "+r")] += 1
            for x in ro["lim"]["second"]:
                second[x] += 1
            for evs in ro["lim"]["events"]:
                for ev in evs:
                    if ev[0] == "pull":
                        pulls[ev[3][0] if ev[3][0] == "ok" else ev[3][1]] += 1
        ps = list(_patterns(o))
        mixed += any((True in p) and (False in p) for p in ps)
        spilled += any(True in p for p in ps)
    return {"families": dict(fam), "consumer_kinds": dict(kinds), "payloads": dict(pay), "limits": dict(lims),
            "cases_with_mixed_buffer": mixed, "cases_with_spill": spilled, "slot_pulls": dict(pulls),
            "second_static_publications": dict(second), "adapter_consumers_at_least_twice_finer_than_source": finer}


def extra_evidence(cases, obss):
    from collections import Counter

    rt = Counter()
    failed = 0
    for c, o in zip(cases, obss):
        for run, ro in _run_pairs(c, o):
            rt[run["payload"]] += ro["lim"].get("roundtrips", 0)
            failed += ro["ref"]["error"] is not None
    reused = sum(ro["lim"].get("reused_ids", 0) for c, o in zip(cases, obss) for _r, ro in _run_pairs(c, o))
    later = sum(len(ro["lim"].get("events", [])) for c, o in zip(cases, obss) for _r, ro in _run_pairs(c, o)[1:])
    return {
        "multi_family_slots_reusing_the_id_of_a_finished_slot": f"{reused} of {later} slots of 2nd/3rd compositions",
        "load_save_roundtrips_checked_per_payload_kind": dict(rt),
        "reference_runs_failed": failed,
        "partial": "real OS/file-system faults and the pickle format are outside the model; id() reuse between slots of "
                   "different lifetimes is exercised by the multi family only; the numeric combination of the unpacked "
                   "payloads is the business of C08/C11/C12",
    }


def _shrink_run(case):
    for opt in ("dup", "noloc"):
        if case.get(opt):
            c = dict(case)
            c.pop(opt)
            yield c
    cons = case["consumers"]
    if len(cons) > 1:
        for i in range(len(cons)):
            c = dict(case)
            c["consumers"] = cons[:i] + cons[i + 1:]
            c.pop("own", None)
            yield c
    if case.get("own"):
        c = dict(case)
        c.pop("own")
        yield c
    if case["payload"] != "scalar":
        c = dict(case)
        c["payload"] = "scalar" if case["payload"] == "grid" else "grid"
        if case["limit"]:
            c["limit"] = case["limit"] * payload_size(c["payload"]) // payload_size(case["payload"])
        yield c
    if case["end"] > case["src_step"]:
        c = dict(case)
        c["end"] = case["end"] - case["src_step"]
        yield c
    if case["limit"] not in (None, 0):
        c = dict(case)
        c["limit"] = 0
        yield c


def shrink_candidates(case):
    if case.get("family") != "multi":
        yield from _shrink_run(case)
        return
    runs = case["runs"]
    if len(runs) > 1:
        for i in range(len(runs)):
            rest = runs[:i] + runs[i + 1:]
            yield rest[0] if len(rest) == 1 else {"family": "multi", "runs": rest}
    for i, r in enumerate(runs):
        for r2 in _shrink_run(r):
            yield {"family": "multi", "runs": runs[:i] + [r2] + runs[i + 1:]}
