"""C09 — output history: never dropped while needed, never unbounded.

Correspondence: the real sdk.Output is driven by scripted interleavings of pushes and consumer
pulls (consumers direct / behind a pass-through adapter / behind push-based adapters).  Every
call that reaches Output.get_data and every push is recorded at the Output boundary; the Coq
model OutputM.run is evaluated on exactly that op sequence and must produce the same pull
results, the same len(output.data) and the same retained publication times (Output.data) after every event.
"""
from ..coqgen import B, C, L, N, NONE, P, Some, Z
from .. import fin
from ..fin import fm, T, us_of, err_class

ID = "C09"
COQ_IMPORTS = "From FV Require Import Base OutputM."
COQ_CHECK = "c09_check"
COQ_MODEL_OBS = "c09_model"
RULE = (
    "random interleavings of pushes (strictly increasing times, gaps from 1us to days) and pulls by 1-4 "
    "consumers (direct, behind Scale, behind NextTime/LinearTime/AvgOverTime) incl. a malformed stream "
    "(decreasing / out-of-range requests, pulls before the first push); non-trivial = at least one eviction "
    "and at least two registered keys whose last requests differ at some point; distinct by canonical case hash"
)
TRUSTED = ["instance-level wrappers of Output.get_data / notify_targets record the op sequence at the Output boundary"]
ASSUMPTIONS = [
    "payload tokens: the i-th publication carries the value i; delivered publication identified by value",
    "domain of the theorems: strictly increasing publication times, per-key non-decreasing requests by registered keys",
]

# "shared": consumers behind ONE shared pass-through adapter that fans out (Out >> Scale >> (In_a, In_b, ...)):
# one direct target of the output, several registered consumers
# "dlinear": Out >> DelayFixed(d) >> LinearTime >> In — the push-based adapter refreshes its buffer for an EARLIER time
# "cb": a push-type input (CallbackInput) attached directly that only NOTES notifications and fetches later (lazily);
# "cbpull" / "cbnext" / "cblinear": a push-type input (direct / behind NextTime / LinearTime) that pulls the announced
# time while it is being notified
# "sdelay": consumers behind ONE shared DelayFixed (a pass-through adapter that shifts the request): every consumer's
# request must reach the output (shifted), or its history is never released
KINDS = ["direct", "scale", "next", "linear", "avg", "shared", "dlinear", "cb", "cbpull", "cbnext", "cblinear"]
CB_PULLING = ("cbpull", "cbnext", "cblinear")
GAPS = [1, 2, 3, 5, 7, 1000, 999999, 1000000, 3600 * 10**6, 86400 * 10**6, 86400 * 10**6 + 1]


def _gen_case(rng, malformed):
    nc = rng.choice([1, 1, 2, 2, 2, 3, 3, 4])
    consumers = [rng.choice(KINDS if rng.random() < 0.5 else ["direct", "scale"]) for _ in range(nc)]
    if nc >= 2 and rng.random() < 0.12:
        consumers = ["sdelay"] * nc
        if rng.random() < 0.3:
            consumers[rng.randrange(nc)] = "direct"
    elif nc >= 2 and rng.random() < 0.25:
        # all (or all but one) consumers behind one shared pass-through adapter
        consumers = ["shared"] * nc
        if rng.random() < 0.4:
            consumers[rng.randrange(nc)] = rng.choice(["direct", "next"])
    gaps = rng.sample(GAPS, rng.choice([1, 2, 3]))
    nops = rng.randint(4, 40)
    ops = []
    t = rng.choice([0, 0, 5, 86400 * 10**6])
    if "dlinear" in consumers or "sdelay" in consumers:
        # the delayed adapter clamps to the link's info time (0): the first publication must be there
        if malformed:
            consumers = [("linear" if k == "dlinear" else "shared" if k == "sdelay" else k) for k in consumers]
        else:
            t = 0
    pubs = []
    last_req = [None] * nc
    if not malformed or rng.random() < 0.5:
        ops.append(["push", t])
        pubs.append(t)
        for kk in range(nc):
            if consumers[kk] in CB_PULLING:
                last_req[kk] = t
    for _ in range(nops):
        if rng.random() < 0.4 or not pubs:
            if malformed and not pubs and rng.random() < 0.5:
                ops.append(["pull", rng.randrange(nc), t])
                continue
            t += rng.choice(gaps)
            ops.append(["push", t])
            pubs.append(t)
            for kk in range(nc):
                if consumers[kk] in CB_PULLING:
                    last_req[kk] = t
        else:
            k = rng.randrange(nc)
            lo = last_req[k] if last_req[k] is not None else pubs[0]
            hi = pubs[-1]
            if malformed and rng.random() < 0.3:
                r = rng.choice([pubs[0] - 1, hi + 1, max(pubs[0], lo - rng.choice(gaps)), hi + rng.choice(gaps)])
            else:
                mode = rng.random()
                cands = [p for p in pubs if lo <= p <= hi]
                if mode < 0.35 and cands:
                    r = rng.choice(cands)
                elif mode < 0.5 and len(pubs) >= 2:
                    i = rng.randrange(len(pubs) - 1)
                    r = (pubs[i] + pubs[i + 1]) // 2
                    r = min(max(r, lo), hi)
                elif mode < 0.6 and len(pubs) >= 2:
                    i = rng.randrange(len(pubs) - 1)
                    r = (pubs[i] + pubs[i + 1] + 1) // 2
                    r = min(max(r, lo), hi)
                else:
                    r = rng.randint(lo, hi) if lo <= hi else lo
            ops.append(["pull", k, r])
            if consumers[k] in ("next", "linear") and not malformed and rng.random() < 0.5 and pubs[0] <= r <= pubs[-1]:
                # a second (third) request strictly inside the same publication interval
                nxt = [p for p in pubs if p > r]
                if nxt and nxt[0] - r >= 2:
                    r2 = rng.randint(r, nxt[0] - 1)
                    ops.append(["pull", k, r2])
                    r = r2
            if consumers[k] in ("shared", "sdelay") and rng.random() < 0.5:
                # the siblings behind the shared adapter ask for the very same time one after the other
                for k2 in range(nc):
                    if k2 != k and consumers[k2] == consumers[k] and (last_req[k2] is None or last_req[k2] <= r):
                        ops.append(["pull", k2, r])
                        if pubs[0] <= r <= pubs[-1]:
                            last_req[k2] = r
            if pubs[0] <= r <= pubs[-1]:
                last_req[k] = r if last_req[k] is None else (r if malformed else max(r, last_req[k]))
    case = {"consumers": consumers, "ops": ops}
    if "dlinear" in consumers or "sdelay" in consumers:
        case["delay"] = rng.choice(gaps) * rng.choice([1, 2, 3])
    return case


CORPUS = [
    # the sequence of tests/core/test_sdk.py::test_cache_data_multi, in microseconds of days
    {"consumers": ["direct", "direct"],
     "ops": [["push", d * 86400 * 10**6] for d in range(10)]
            + [["pull", 0, 2 * 86400 * 10**6], ["pull", 1, 0], ["pull", 1, 86400 * 10**6], ["pull", 1, 7 * 86400 * 10**6],
               ["pull", 0, 7 * 86400 * 10**6], ["pull", 0, 9 * 86400 * 10**6], ["pull", 1, 9 * 86400 * 10**6]]},
    # exact midpoint and odd microsecond gaps (finding F8, fixed)
    {"consumers": ["direct"], "ops": [["push", 0], ["push", 5], ["pull", 0, 2], ["pull", 0, 3], ["push", 10], ["pull", 0, 7], ["pull", 0, 8]]},
    {"consumers": ["direct", "next"], "ops": [["push", 0], ["push", 4], ["pull", 0, 2], ["pull", 1, 4], ["push", 9], ["pull", 0, 9]]},
    # lock-step siblings behind one shared adapter plus a direct consumer: history must still be released
    {"consumers": ["shared", "shared", "direct"],
     "ops": [x for d in range(0, 8) for x in (["push", d], ["pull", 0, d], ["pull", 1, d], ["pull", 2, d])]},
    # a delayed push-based adapter is the slowest consumer
    {"consumers": ["dlinear", "direct"], "delay": 3,
     "ops": [x for d in range(0, 9) for x in (["push", d], ["pull", 1, d])] + [["pull", 0, 8]]},
    # a consumer three times finer than the producer behind NextTime / LinearTime: several requests inside one interval
    {"consumers": ["next", "linear"],
     "ops": [["push", 0], ["push", 3], ["pull", 0, 1], ["pull", 1, 1], ["pull", 0, 2], ["pull", 1, 2], ["pull", 0, 3], ["push", 6],
             ["pull", 0, 4], ["pull", 0, 5], ["pull", 1, 5], ["pull", 0, 6]]},
    # lock-step consumers behind one shared DelayFixed: the requests of BOTH must reach the output
    {"consumers": ["sdelay", "sdelay"], "delay": 2,
     "ops": [x for d in range(0, 10) for x in (["push", d], ["pull", 0, d], ["pull", 1, d])]},
    # a lazy push-type input next to an eager consumer: what it has not fetched yet must be kept
    {"consumers": ["cb", "direct"],
     "ops": [["push", 0], ["push", 2], ["pull", 1, 2], ["push", 4], ["pull", 1, 4], ["pull", 0, 0], ["pull", 0, 2], ["pull", 0, 4]]},
    # push-type inputs that pull while notified, directly and behind time adapters
    {"consumers": ["cbnext", "cblinear", "cbpull"], "ops": [["push", 0], ["push", 3], ["push", 7], ["pull", 0, 7], ["push", 9]]},
    # two consumers with different paces behind one shared pass-through adapter
    {"consumers": ["shared", "shared"],
     "ops": [["push", d] for d in range(0, 7)] + [["pull", 0, 3], ["pull", 1, 1], ["pull", 1, 2], ["pull", 0, 6], ["pull", 1, 3], ["pull", 1, 6]]},
]


def generate(rng, tier):
    n = 400 if tier == "quick" else 8000
    cases = list(CORPUS)
    for i in range(n):
        c = _gen_case(rng, malformed=(i % 6 == 5))
        if i % 5 == 3:
            c["spill"] = True      # histories on disk
            c["masked"] = (i % 10 == 3)   # half of them with masked payloads
        cases.append(c)
    return cases


def run_impl(case):
    if case.get("spill"):
        # every history (the output's and the push-based adapters') is kept on disk (memory limit 0)
        import tempfile
        with tempfile.TemporaryDirectory(prefix="c09spill") as d:
            return _run_impl(case, d)
    return _run_impl(case, None)


def _run_impl(case, spill_dir):
    t0 = T(0)
    info = fm.Info(time=t0, grid=fm.NoGrid())
    out = fm.Output(name="Out")
    inputs, adapters = [], []
    shared = None
    cb_log = []  # results of pulls made inside notification callbacks: [consumer, time, result]

    def mk_cb(i, pulling):
        def cb(caller, time):
            if not pulling:
                return
            try:
                caller.pull_data(time)
                cb_log.append([i, us_of(time), "ok"])
            except Exception as e:  # noqa
                cb_log.append([i, us_of(time), err_class(e)])
        return cb

    for i, kind in enumerate(case["consumers"]):
        if kind in ("cb",) + CB_PULLING:
            inp = fm.CallbackInput(callback=mk_cb(i, kind in CB_PULLING), name=f"In{i}")
        else:
            inp = fm.Input(name=f"In{i}")
        if kind in ("direct", "cb", "cbpull"):
            out >> inp
            ada = None
        elif kind in ("shared", "sdelay"):
            if shared is None:
                if kind == "sdelay":
                    from datetime import timedelta as _td
                    shared = fm.adapters.DelayFixed(_td(microseconds=case.get("delay", 3)))
                else:
                    shared = fm.adapters.Scale(1.0)
                out >> shared
            shared >> inp
            ada = shared
        elif kind == "dlinear":
            from datetime import timedelta
            dl = fm.adapters.DelayFixed(timedelta(microseconds=case.get("delay", 3)))
            ada = fm.adapters.LinearTime()
            out >> dl >> ada >> inp
        else:
            ada = {"scale": lambda: fm.adapters.Scale(1.0), "next": fm.adapters.NextTime, "cbnext": fm.adapters.NextTime,
                   "linear": fm.adapters.LinearTime, "cblinear": fm.adapters.LinearTime,
                   "avg": fm.adapters.AvgOverTime}[kind]()
            out >> ada >> inp
        inputs.append(inp)
        adapters.append(ada)
    if spill_dir is not None:
        for x in [out] + [a for a in adapters if a is not None]:
            x.memory_limit = 0
            x.memory_location = spill_dir
    for inp in inputs:
        inp.ping()
    out.push_info(info)
    for inp in inputs:
        inp.exchange_info(fm.Info(time=t0, grid=fm.NoGrid()))

    # the end points the output keeps a request time for, in registration (ping) order: for every input the push-based
    # adapter closest to the output on its link, or the input itself (Input.ping / Adapter.pinged).  Computed through
    # the public link structure; the output's own (private) registry is used when it exists and says otherwise.
    keys = []
    for inp in inputs:
        end, node = inp, inp
        while isinstance(getattr(node, "source", None), fm.IAdapter):
            node = node.source
            if node.needs_push:
                end = node
        if not any(end is k for k in keys):
            keys.append(end)
    reg = getattr(out, "_connected_inputs", None)
    if reg is not None and [id(k) for k in reg.keys()] != [id(k) for k in keys]:
        keys = list(reg.keys())
    key_idx = {id(k): i for i, k in enumerate(keys)}
    events = []
    retained = []  # parallel to events: the publication times held in Output.data after the event
    real_get = out.get_data
    real_notify = out.notify_targets

    def get_data(time, target):
        k = key_idx.setdefault(id(target), len(key_idx))
        try:
            d = real_get(time, target)
            res = ["ok", int(round(fin.scalar_of(d)))]
        except Exception as e:  # noqa
            events.append(["pull", k, us_of(time), [err_class(e)], len(out.data)])
            retained.append([us_of(t) for t, _d in out.data])
            raise
        events.append(["pull", k, us_of(time), res, len(out.data)])
        retained.append([us_of(t) for t, _d in out.data])
        return d

    def notify_targets(time):
        events.append(["push", us_of(time), len(out.data)])
        retained.append([us_of(t) for t, _d in out.data])
        return real_notify(time)

    out.get_data = get_data
    out.notify_targets = notify_targets

    npush = 0
    user = []
    marks = []  # after every user-level op: (number of boundary events so far, len(out.data))
    for op in case["ops"]:
        try:
            if op[0] == "push":
                if spill_dir is not None and case.get("masked"):
                    # a masked payload (nothing masked): stored and spilled as a numpy masked array
                    import numpy as _np
                    out.push_data(_np.ma.masked_array(float(npush), mask=False), T(op[1]))
                else:
                    out.push_data(float(npush), T(op[1]))
                npush += 1
                user.append("ok")
            else:
                inputs[op[1]].pull_data(T(op[2]))
                user.append("ok")
        except Exception as e:  # noqa
            user.append(err_class(e))
        marks.append([len(events), len(out.data)])
    kinds = ["adapter" if isinstance(k, fm.IAdapter) else "input" for k in keys]
    spill = None
    if spill_dir is not None:
        import os
        holders = {id(x): x for x in [out] + [a for a in adapters if a is not None]}.values()
        held = [d for x in holders for _t, d in getattr(x, "data", []) if isinstance(d, str)]
        spill = [sorted(os.listdir(spill_dir)), sorted(os.path.basename(h) for h in held)]
    return {"spill": spill, "nkeys": len(keys), "key_kinds": kinds, "events": events, "retained": retained, "user": user, "marks": marks, "cb": cb_log}


def _ops_from_events(obs):
    ops, res = [], []
    npush = 0
    for ev in obs["events"]:
        if ev[0] == "push":
            ops.append(C("Push", Z(ev[1]), N(npush)))
            npush += 1
            res.append(P(NONE, N(ev[2])))
        else:
            ops.append(C("Pull", N(ev[1]), Z(ev[2])))
            r = ev[3]
            if r[0] == "ok":
                rr = C("Ok", N(r[1]))
            elif r[0] == "TimeError":
                rr = "ErrTime"
            elif r[0] == "NoDataError":
                rr = "ErrNoData"
            else:
                rr = C("Ok", N(4999))  # an error class the model cannot produce: forces a mismatch
            res.append(P(Some(rr), N(ev[4])))
    return ops, res


def coq_case(case, obs):
    # the Coq case is the op sequence recorded at the Output boundary
    ops, _ = _ops_from_events(obs)
    keys = L(N(i) for i in range(obs["nkeys"]))
    return P(keys, L(ops))


def coq_obs(case, obs):
    return P(L(_ops_from_events(obs)[1]), L(L(Z(t) for t in ts) for ts in obs["retained"]))


def _sim(obs):
    """Reference: unlimited history, nearest publication.  Returns list of failures."""
    pubs = []
    last = {}
    nkeys = obs["nkeys"]
    fails = []
    in_domain = True
    evicted = False
    diverged = False
    maxlen = 0
    for ev in obs["events"]:
        if ev[0] == "push":
            if pubs and ev[1] <= pubs[-1]:
                in_domain = False
            pubs.append(ev[1])
            if ev[2] < maxlen:
                pass
            maxlen = ev[2]
            continue
        _, k, t, r, ln = ev
        if k >= nkeys:
            in_domain = False
        if k in last and t < last[k]:
            in_domain = False
        if not in_domain:
            continue
        if not pubs:
            if r != ["NoDataError"]:
                fails.append(f"pull before any publication returned {r}")
            continue
        if t < pubs[0] or t > pubs[-1]:
            if r != ["TimeError"]:
                fails.append(f"request {t} outside the published range [{pubs[0]},{pubs[-1]}] of the unlimited history returned {r}")
            continue
        dmin = min(abs(p - t) for p in pubs)
        ok_idx = [i for i, p in enumerate(pubs) if abs(p - t) == dmin]
        if r[0] != "ok" or r[1] not in ok_idx:
            fails.append(f"pull key={k} t={t} returned {r}, unlimited history gives publication {ok_idx}")
        last[k] = t
        if len(last) == nkeys:
            m = min(last.values())
            bound = 1 + sum(1 for p in pubs if p > m)
            if ln > bound:
                fails.append(f"after pull key={k} t={t}: retained {ln} > 1 + #publications newer than {m} = {bound}")
            if len(set(last.values())) > 1:
                diverged = True
        if ln < maxlen:
            evicted = True
        maxlen = ln
    return fails, evicted, diverged


def _user_level_bound(case, obs):
    """The bound judged at the consumers' level: a consumer that reads the output directly or through pass-through
    adapters has 'pulled' when ITS pull returned, whether or not the request reached the output (an adapter in
    between must not swallow it).  Push-based adapters are consumers themselves (boundary events)."""
    nk = obs["nkeys"]
    if nk != len(case["consumers"]) or "marks" not in obs:
        return None
    direct = [k in ("direct", "scale", "shared", "cb", "sdelay") for k in case["consumers"]]
    shift = [case.get("delay", 3) if k == "sdelay" else 0 for k in case["consumers"]]
    last = {}
    pubs = []
    ev = obs["events"]
    seen = 0
    for op, res, (nev, ln) in zip(case["ops"], obs["user"], obs["marks"]):
        for e in ev[seen:nev]:
            if e[0] == "push":
                pubs.append(e[1])
            elif e[3][0] == "ok" and e[1] < nk and not direct[e[1]]:
                last[e[1]] = e[2]
        seen = nev
        if op[0] == "pull" and res == "ok" and direct[op[1]]:
            if op[1] in last and max(0, op[2] - shift[op[1]]) < last[op[1]]:
                return None  # outside the domain (decreasing requests)
            last[op[1]] = max(0, op[2] - shift[op[1]])   # the time that must have reached the output
            if len(last) == nk and pubs:
                m = min(last.values())
                bound = 1 + sum(1 for p in pubs if p > m)
                if ln > bound:
                    return (f"after consumer {op[1]} pulled t={op[2]}: every consumer has pulled (slowest at {m}) but "
                            f"{ln} entries are retained > 1 + #publications newer than {m} = {bound}")
    return None


def _user_level_adapters(case, obs):
    """Consumers behind push-based adapters (NextTime / LinearTime keep their own history): a request inside the
    published range, not before the consumer's previous request, must be served — nothing such a consumer may still
    request is discarded by the adapter either; NextTime must deliver the first publication at or after the request."""
    if "user" not in obs or len(obs["user"]) != len(case["ops"]):
        return None
    pubs = []
    last = {}
    dead = set()
    for op, res in zip(case["ops"], obs["user"]):
        if op[0] == "push":
            if pubs and op[1] <= pubs[-1]:
                return None
            if res != "ok":
                return None
            pubs.append(op[1])
            for kk, kd in enumerate(case["consumers"]):
                if kd in CB_PULLING:
                    last[kk] = op[1]   # it pulled the announced time while being notified
            continue
        k, t = op[1], op[2]
        kind = case["consumers"][k]
        if kind not in ("next", "linear", "cbnext", "cblinear") or k in dead:
            continue
        if not pubs or t < pubs[0] or t > pubs[-1] or (k in last and t < last[k]):
            dead.add(k)  # outside the domain from here on (the adapter's state after a refused request is not specified)
            continue
        last[k] = t
        if res != "ok":
            return (f"consumer {k} behind {kind}: request {t} inside the published range [{pubs[0]},{pubs[-1]}], not before "
                    f"its previous request, failed with {res}")
    return None


def _callback_pulls(case, obs):
    """a push-type consumer that pulls the announced time while it is notified (directly or behind a push-based
    adapter) must be served: the publication it is told about exists"""
    for i, t, r in obs.get("cb", []):
        if r != "ok":
            return f"consumer {i} ({case['consumers'][i]}) pulled the announced time {t} while being notified and got {r}"
    return None


def _spill_files(case, obs):
    """histories kept on disk: exactly the retained entries have a file (none of a retained entry is gone, none of a
    released entry is left behind)"""
    if not obs.get("spill"):
        return None
    files, held = obs["spill"]
    if files != held:
        gone = [h for h in held if h not in files]
        left = [f for f in files if f not in held]
        return (f"histories on disk: {len(gone)} retained entr{'y has' if len(gone) == 1 else 'ies have'} no file any more, "
                f"{len(left)} file(s) of released entries are left behind")
    return None


def monitor(case, obs):
    fails, _, _ = _sim(obs)
    if fails:
        return fails[0]
    return _spill_files(case, obs) or _user_level_bound(case, obs) or _user_level_adapters(case, obs) or _callback_pulls(case, obs)


def nontrivial(case, obs):
    _, ev, dv = _sim(obs)
    return ev and dv


def distribution(cases, obss):
    from collections import Counter

    kinds = Counter(k for c in cases for k in c["consumers"])
    nops = Counter(min(len(o["events"]) // 10 * 10, 60) for o in obss if "events" in o)
    res = Counter(ev[3][0] for o in obss if "events" in o for ev in o["events"] if ev[0] == "pull")
    return {"consumer_kinds": dict(kinds), "boundary_events_per_case_bucket": dict(nops), "pull_results": dict(res)}


def shrink_candidates(case):
    ops = case["ops"]
    for i in range(len(ops) - 1, -1, -1):
        yield dict(case, ops=ops[:i] + ops[i + 1:])
