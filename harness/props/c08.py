"""C08 — data crossing a link keeps its values, time, units and shape.

Correspondence: a bare  Output >> Input  link of the real finam (no Composition; ping, push_info,
exchange_info through the public API) is driven by scripted pushes and pulls.  Payload forms:
python scalar / nested list / ndarray / masked array / pint Quantity (same, equivalent, convertible
or incompatible units), flat / grid shaped / with time axis / stacked / malformed; infos with NoGrid
(fixed and flexible axes) and small UniformGrids (orders C and F, reversed axes, cells and points),
masks FLEX / NONE / explicit; numpy views, copies and identical objects for the memory-sharing rule.
The Coq model LinkData.lrun is evaluated on the op sequence (payload = what numpy says the pushed
object is: shape, C-order values, mask, memory bounds) and must produce the same results.
"""
from fractions import Fraction

from ..coqgen import B, C, L, N, NONE, P, Q, Some, Z
from ..fin import fm, T, us_of, err_class, np

ID = "C08"
COQ_IMPORTS = "From FV Require Import Base OutputM LinkData."
COQ_CHECK = "c08_check"
COQ_MODEL_OBS = "c08_model"
RULE = (
    "random publication histories (strictly increasing, gaps 1us..days incl. odd microsecond gaps) and pulls on / "
    "between / at the floor and ceiling midpoint of / outside the publications on a bare Output>>Input link; payloads "
    "scalar/list/ndarray/masked/Quantity x flat/shaped/time axis/stacked/malformed x NoGrid and UniformGrid infos x unit "
    "pairs (same, equivalent, convertible incl. offset and non-dyadic factors, incompatible) x masks FLEX/NONE/explicit; "
    "links between two layouts of the same UniformGrid (axes_reversed / axes_increase / order differ, 1-3 D, non-square), "
    "links under a memory limit (0 and small: publications spilled to disk and read back) with masked payloads of varying masks; "
    "consumers declaring their own NoGrid data shape (equal / flexible vs fixed axes: link refused at the exchange unless equal); "
    "a separate stream for the memory-sharing rule (views, strided views, copies, same object, buffers updated in place and published "
    "again, converted; infos with FLEX / NONE / nomask / explicit masks); producers alternating two pre-allocated buffers with consumers "
    "stepping over publications and working in place on their own (converted) arrays; a stream with 2-3 "
    "consumers on one output (direct / behind Scale(1.0)), per-consumer forward requests that are mutually out of step plus backwards requests. "
    "non-trivial = a served request strictly between two publications, or a delivered non-scalar payload; "
    "distinct by canonical case hash"
)
TRUSTED = [
    "numpy describes the pushed object (shape, ravel() values, mask, byte bounds of its memory); pint unit table UNIT_TABLE below "
    "is the model of the registry (dims, factor, offset)",
    "float results are compared with the exact rational model value with tolerance 2^-40 relative (IEEE rounding outside the model)",
]
ASSUMPTIONS = [
    "same grid object on both ends of the link (layout transforms are C15); 1-3 consumers per output, pass-through adapter Scale(1.0) only",
    "no nearly-equal units (np.isclose in equivalent_units); zero-size arrays are not generated",
    "a mask with no bit set and no mask at all are identified (numpy turns 0-d masked arrays with nothing masked into scalars)",
    "payload of shape (k, *data_shape), k > 1, on a structured grid is accepted as k stacked time entries (documented finam "
    "behaviour, modelled as is; the 'leading axis of length one' claim is for the other forms)",
    "a masked-array payload keeps its own mask whatever the info says (modelled as is, see report)",
]

# name -> (dims [length, time, temperature], factor, offset)   (value_in_base = value * factor + offset)
UNIT_TABLE = {
    "m": ([1, 0, 0], Fraction(1), Fraction(0)),
    "km": ([1, 0, 0], Fraction(1000), Fraction(0)),
    "cm": ([1, 0, 0], Fraction(1, 100), Fraction(0)),
    "mm": ([1, 0, 0], Fraction(1, 1000), Fraction(0)),
    "s": ([0, 1, 0], Fraction(1), Fraction(0)),
    "min": ([0, 1, 0], Fraction(60), Fraction(0)),
    "h": ([0, 1, 0], Fraction(3600), Fraction(0)),
    "m/s": ([1, -1, 0], Fraction(1), Fraction(0)),
    "km/h": ([1, -1, 0], Fraction(5, 18), Fraction(0)),
    "mm/d": ([1, -1, 0], Fraction(1, 86400000), Fraction(0)),
    "": ([0, 0, 0], Fraction(1), Fraction(0)),
    "percent": ([0, 0, 0], Fraction(1, 100), Fraction(0)),
    "Hz": ([0, -1, 0], Fraction(1), Fraction(0)),
    "1/s": ([0, -1, 0], Fraction(1), Fraction(0)),
    "1/min": ([0, -1, 0], Fraction(1, 60), Fraction(0)),
    "K": ([0, 0, 1], Fraction(1), Fraction(0)),
    "degC": ([0, 0, 1], Fraction(1), Fraction(27315, 100)),
}
UNIT_GROUPS = [["m", "km", "cm", "mm"], ["s", "min", "h"], ["m/s", "km/h", "mm/d"], ["", "percent"],
               ["Hz", "1/s", "1/min"], ["K", "degC"]]
EXACT_GROUPS = [["m", "km"], ["s", "min", "h"], ["Hz", "1/s"], [""]]  # conversions exact in binary floating point
GAPS = [1, 2, 3, 5, 7, 9, 1000, 999999, 1000001, 3600 * 10**6, 86400 * 10**6, 86400 * 10**6 + 1]
GRIDS = [
    {"kind": "no", "dsh": []}, {"kind": "no", "dsh": []}, {"kind": "no", "dsh": [-1]}, {"kind": "no", "dsh": [-1, -1]},
    {"kind": "no", "dsh": [2, -1]}, {"kind": "no", "dsh": [3]},
    {"kind": "uni", "dims": [4], "order": "F", "rev": False, "loc": "cells"},
    {"kind": "uni", "dims": [3, 4], "order": "F", "rev": False, "loc": "cells"},
    {"kind": "uni", "dims": [3, 4], "order": "C", "rev": False, "loc": "cells"},
    {"kind": "uni", "dims": [3, 4], "order": "F", "rev": True, "loc": "cells"},
    {"kind": "uni", "dims": [2, 3], "order": "C", "rev": True, "loc": "points"},
    {"kind": "uni", "dims": [2, 3], "order": "F", "rev": False, "loc": "points"},
    {"kind": "uni", "dims": [3, 3, 3], "order": "F", "rev": False, "loc": "cells"},
    {"kind": "uni", "dims": [3, 2, 4], "order": "C", "rev": False, "loc": "cells"},
    {"kind": "uni", "dims": [2, 2], "order": "F", "rev": False, "loc": "cells"},
    {"kind": "uni", "dims": [2, 3, 2], "order": "F", "rev": True, "loc": "points"},
]
POOL_LEN = 40


def pool_val(k, i):
    return Fraction(k * 64 + i, 8)


def _prod(l):
    r = 1
    for x in l:
        r *= x
    return r


def grid_shape(g):
    """data shape of the generator-level grid description (-1 flexible); the run uses the real grid's data_shape"""
    if g["kind"] == "no":
        return list(g["dsh"])
    d = [max(x - 1, 1) if g["loc"] == "cells" else x for x in g["dims"]]
    return d[::-1] if g["rev"] else d


def make_grid(g):
    if g["kind"] == "no":
        if not g["dsh"]:
            return fm.NoGrid()
        if all(x == -1 for x in g["dsh"]):
            return fm.NoGrid(len(g["dsh"]))
        return fm.NoGrid(data_shape=tuple(g["dsh"]))
    return fm.UniformGrid(tuple(g["dims"]), order=g["order"], axes_reversed=g["rev"],
                          axes_increase=g.get("inc") or [True] * len(g["dims"]),
                          data_location=fm.Location.CELLS if g["loc"] == "cells" else fm.Location.POINTS)


def cons_grid_desc(case, c):
    """generator-level grid of a consumer: the producer's grid, or the same grid in the consumer's own layout"""
    if not c.get("lay"):
        return case["grid"]
    return dict(case["grid"], rev=c["lay"]["rev"], inc=c["lay"]["inc"], order=c["lay"].get("order", case["grid"]["order"]))


def layout_positions(dims_xyz, rev, inc):
    """for each C position of the data array of a layout: the id (C position in the canonical xyz, increasing array) of the
    cell stored there.  Hand computation with plain index arithmetic (no finam helper)."""
    import itertools
    shape = list(dims_xyz)[::-1] if rev else list(dims_xyz)
    ids = []
    for idx in itertools.product(*[range(n) for n in shape]):
        xyz = list(idx)[::-1] if rev else list(idx)
        can = [i if inc[a] else dims_xyz[a] - 1 - i for a, i in enumerate(xyz)]
        cid = 0
        for a, i in enumerate(can):
            cid = cid * dims_xyz[a] + i
        ids.append(cid)
    return ids


# ----------------------------------------------------------------------------
# generator
# ----------------------------------------------------------------------------
def _ngrid_variant(rng, dsh):
    """a consumer-side NoGrid data shape: the producer's, or with some axes toggled between flexible (-1) and fixed"""
    if rng.random() < 0.3:
        return list(dsh)
    out = []
    for x in dsh:
        q = rng.random()
        if q < 0.4:
            out.append(x)
        elif x == -1:
            out.append(rng.choice([2, 3, 3]))
        else:
            out.append(rng.choice([-1, -1, x + 1]))
    return out


def _gen_payload(rng, g, uo, maskspec, serial, exact, malformed, wraps=None):
    ds = [x if x != -1 else rng.choice([1, 2, 3]) for x in grid_shape(g)]
    n = _prod(ds)
    forms = ["shaped", "shaped", "timed"]
    if g["kind"] == "uni":
        forms += ["flat", "flat"]
        if rng.random() < 0.08:
            forms = ["stacked"]
    r = rng.random()
    if malformed and r < 0.5:
        form = rng.choice(["wrongsize", "transposed", "extra", "flatno", "two", "scalar"])
    else:
        form = rng.choice(forms)
    if form == "shaped":
        shape = list(ds)
    elif form == "timed":
        shape = [1] + ds
    elif form == "flat":
        shape = [n]
    elif form == "stacked":
        shape = [2] + ds
    elif form == "wrongsize":
        shape = [n + rng.choice([1, 2])] if rng.random() < 0.5 else (ds[:-1] + [ds[-1] + 1] if ds else [2])
    elif form == "transposed":
        shape = ds[::-1] if ds[::-1] != ds else ds + [1]
    elif form == "extra":
        shape = [1, 1] + ds
    elif form == "flatno":
        shape = [n]
    elif form == "two":
        shape = [2] + ds
    else:
        shape = []
    size = _prod(shape)
    vals = [serial * 32 + j for j in range(size)]  # in eighths: publications are told apart by value
    wrap = rng.choice(wraps or ["array", "array", "array", "list", "masked", "qty", "qty", "qty_masked"])
    if shape == [] and rng.random() < 0.6:
        wrap = "scalar"
    mask = None
    if wrap in ("masked", "qty_masked"):
        if isinstance(maskspec, list) and len(maskspec) == size and rng.random() < 0.8:
            mask = list(maskspec)  # a producer that declares a mask publishes with that mask
        elif isinstance(maskspec, list):
            wrap = "array" if wrap == "masked" else "qty"
        else:
            mask = [rng.random() < 0.3 for _ in range(size)]
            if rng.random() < 0.15:
                mask = [False] * size
    units = None
    if wrap in ("qty", "qty_masked"):
        grp = next(gr for gr in (EXACT_GROUPS if exact else UNIT_GROUPS) if uo in gr)
        q = rng.random()
        if malformed and q < 0.3:
            other = [u for gr in UNIT_GROUPS if uo not in gr for u in gr]
            units = rng.choice(other)
        elif q < 0.45:
            units = uo
        else:
            units = rng.choice(grp)
    return {"shape": shape, "vals": vals, "wrap": wrap, "mask": mask, "units": units, "buf": None}


def _gen_times(rng, npush):
    gaps = rng.sample(GAPS, rng.choice([1, 2, 3]))
    t = rng.choice([0, 0, 5, 86400 * 10**6])
    ts = []
    for _ in range(npush):
        ts.append(t)
        t += rng.choice(gaps)
    return ts, gaps


def _gen_request(rng, pubs, lo, gaps, malformed):
    hi = pubs[-1]
    if malformed and rng.random() < 0.35:
        return rng.choice([pubs[0] - 1, hi + 1, lo - 1, hi + rng.choice(gaps), max(pubs[0], lo - rng.choice(gaps))])
    mode = rng.random()
    inner = [i for i in range(len(pubs) - 1) if pubs[i + 1] >= lo]
    if mode < 0.3:
        c = [p for p in pubs if p >= lo]
        return rng.choice(c) if c else hi
    if mode < 0.75 and inner:
        i = rng.choice(inner)
        a, b = pubs[i], pubs[i + 1]
        r = rng.choice([(a + b) // 2, (a + b + 1) // 2, (a + b) // 2 - 1, (a + b) // 2 + 1, a + 1, b - 1])
        return min(max(r, lo), hi)
    return rng.randint(lo, hi) if lo <= hi else lo


def _gen_case(rng, malformed, exact=False):
    g = dict(rng.choice(GRIDS))
    grp = rng.choice(EXACT_GROUPS if exact else UNIT_GROUPS)
    uo = rng.choice(grp)
    ui = rng.choice(grp + [None])
    ds = grid_shape(g)
    maskspec = rng.choice(["flex", "flex", "none"])
    if -1 not in ds and ds and rng.random() < 0.4:
        maskspec = [rng.random() < 0.35 for _ in range(_prod(ds))]
    nops = rng.randint(3, 10)
    ops = []
    npush_planned = 1 + sum(1 for _ in range(nops) if rng.random() < 0.45)
    ts, gaps = _gen_times(rng, npush_planned)
    pubs, lo, k = [], None, 0
    if malformed and rng.random() < 0.3:
        ops.append(["pull", ts[0]])
    while k < len(ts) or rng.random() < 0.5:
        if k < len(ts) and (not pubs or rng.random() < 0.45):
            p = _gen_payload(rng, g, uo, maskspec, k, exact, malformed)
            ops.append(["push", ts[k], p])
            pubs.append(ts[k])  # optimistic: a refused push only makes later requests fall out of range
            k += 1
        elif pubs:
            r = _gen_request(rng, pubs, lo if lo is not None else pubs[0], gaps, malformed)
            ops.append(["pull", r])
            if pubs[0] <= r <= pubs[-1]:
                lo = r if (lo is None or malformed) else max(lo, r)
        if len(ops) > 14:
            break
    case = {"grid": g, "uo": uo, "ui": ui, "mask": maskspec, "in_mask": rng.choice(["flex", "same"]), "ops": ops}
    if g["kind"] == "no" and g["dsh"] and rng.random() < 0.3:
        # the consumer declares its own NoGrid: the link exists only for equal data shapes (else MetaDataError, no data crosses)
        case["consumers"] = [{"kind": "direct", "ui": ui, "ngrid": _ngrid_variant(rng, g["dsh"])}]
        if isinstance(maskspec, list):
            case["mask"], case["in_mask"] = "flex", "flex"
    if rng.random() < 0.15:
        case["mem_limit"] = rng.choice([0, 0, 8, 64, 200])  # publications spilled to disk (np.save / pickle) and read back
    return case


def _gen_share_case(rng):
    """memory-sharing stream: 1-d NoGrid / small uniform grid, payloads are views of a few pooled arrays"""
    g = dict(rng.choice([{"kind": "no", "dsh": [-1]}, {"kind": "no", "dsh": [-1]}, {"kind": "no", "dsh": [-1, -1]},
                         {"kind": "uni", "dims": [3, 4], "order": "F", "rev": False, "loc": "cells"},
                         {"kind": "uni", "dims": [5], "order": "C", "rev": False, "loc": "cells"}, {"kind": "no", "dsh": [3]}]))
    grp = rng.choice(EXACT_GROUPS[:3])
    uo = rng.choice(grp)
    ui = rng.choice(grp + [None])
    ds = grid_shape(g)
    maskspec = rng.choice(["flex", "flex", "flex", "none", "nomask", "nomask", "bits", "bits"])
    if maskspec == "bits":
        maskspec = [rng.random() < 0.35 for _ in range(_prod(ds))] if -1 not in ds else "nomask"
    inplace = rng.random() < 0.4  # buffers updated in place and published again (no pulls afterwards: the retained alias changes too)
    npush = rng.randint(3, 7)
    ts, gaps = _gen_times(rng, npush)
    ops = []
    fixed = [x if x != -1 else rng.choice([2, 3, 4]) for x in ds]  # the same extents in the whole case
    n = _prod(fixed)
    prev = None
    for k in range(npush):
        mode = rng.random()
        pool = rng.choice([0, 0, 1])
        step = rng.choice([1, 1, 1, 2])
        if inplace and ops and mode < 0.7:
            npushed = len([o for o in ops if o[0] == "push"])
            j = npushed - 1 if mode < 0.45 else rng.randrange(npushed)  # mostly the object published last
            pj = [o for o in ops if o[0] == "push"][j][2]
            ops.append(["push", ts[k], dict(pj, vals=[(k * 32 + i) for i in range(_prod(pj["shape"]))], buf={"reuse": j})])
            continue
        if prev is not None and mode < 0.2:
            buf = dict(prev)  # the same memory again (a new view object of the same bytes)
        elif prev is not None and mode < 0.3:
            buf = {"same_as": len([o for o in ops if o[0] == "push"]) - 1}  # the very same python object
        elif prev is not None and mode < 0.6 and "pool" in prev:
            # neighbouring / overlapping / interleaved window in the same allocation
            shift = rng.choice([-n * prev["step"], n * prev["step"], -1, 1, -(n // 2) or -1, n // 2 or 1, n * prev["step"] + 1])
            start = min(max(prev["start"] + shift, 0), POOL_LEN - n * step)
            buf = {"pool": prev["pool"], "start": start, "step": step}
        else:
            buf = {"pool": pool, "start": rng.randrange(0, POOL_LEN - n * step + 1), "step": step}
        if "pool" in buf:
            buf["copy"] = rng.random() < 0.15
            prev = {k2: buf[k2] for k2 in ("pool", "start", "step")}
        form = rng.choice(["shaped", "timed", "flat"] if g["kind"] == "uni" else ["shaped", "timed"])
        shape = {"shaped": list(fixed), "timed": [1] + fixed, "flat": [n]}[form]
        wrap = rng.choice(["array", "array", "masked", "qty", "qty", "qty_masked", "list"])
        units = rng.choice(grp) if wrap.startswith("qty") else None
        mask = [rng.random() < 0.3 for _ in range(n)] if wrap in ("masked", "qty_masked") else None
        ops.append(["push", ts[k], {"shape": shape, "vals": None, "wrap": wrap, "mask": mask, "units": units, "buf": buf}])
        if rng.random() < 0.4 and not inplace:
            ops.append(["pull", rng.choice(ts[: k + 1])])
    return {"grid": g, "uo": uo, "ui": ui, "mask": maskspec, "in_mask": "flex", "ops": ops}


def _gen_dbuf_case(rng):
    """a producer that alternates two pre-allocated buffers (updated in place between publications) and consumers that
    need a unit conversion, step over publications and work in place on what they pulled"""
    g = dict(rng.choice([{"kind": "no", "dsh": []}, {"kind": "no", "dsh": [-1]}, {"kind": "no", "dsh": [3]},
                         {"kind": "uni", "dims": [3, 4], "order": "F", "rev": False, "loc": "cells"}]))
    grp = rng.choice([["m", "km", "cm", "mm"], ["s", "min", "h"], ["m/s", "km/h", "mm/d"]])
    uo = rng.choice(grp)
    others = [u for u in grp if u != uo]
    consumers = [{"kind": rng.choice(["direct", "direct", "direct", "scale"]), "ui": rng.choice(others + others + [uo, None])}
                 for _ in range(rng.choice([1, 2, 2]))]
    ds = [x if x != -1 else rng.choice([1, 2, 3]) for x in grid_shape(g)]
    n = _prod(ds)
    wrap = rng.choice(["qty", "qty", "qty", "array", "qty_masked", "masked"])
    shape = ([1] + ds) if rng.random() < 0.8 else list(ds)  # with the time axis the retained object is the producer's own buffer
    units = (uo if rng.random() < 0.8 else rng.choice(others)) if wrap.startswith("qty") else None
    mask = [rng.random() < 0.3 for _ in range(n)] if wrap in ("masked", "qty_masked") else None
    npush = rng.randint(4, 9)
    ts, gaps = _gen_times(rng, npush)
    stride = [rng.choice([1, 2, 2, 2, 3]) for _ in consumers]
    ops = []
    for k in range(npush):
        pl = {"shape": shape, "vals": [k * 32 + i for i in range(n)], "wrap": wrap, "mask": mask, "units": units,
              "buf": None if k < 2 else {"reuse": k % 2}}
        ops.append(["push", ts[k], pl])
        for c in range(len(consumers)):
            if k % stride[c] == 0 or rng.random() < 0.1:
                # only the newest two publications are intact (the older ones live in a buffer that has been overwritten)
                t = ts[k] if (k == 0 or rng.random() < 0.75) else rng.randint((ts[k - 1] + ts[k]) // 2 + 1, ts[k])
                op = ["pull", t, c] + (["scribble"] if rng.random() < 0.5 else [])
                ops.append(op)
                if rng.random() < 0.5:
                    ops.append(["pull", t, c] + (["scribble"] if rng.random() < 0.3 else []))
    return {"grid": g, "uo": uo, "ui": consumers[0]["ui"], "consumers": consumers, "mask": "flex", "in_mask": "flex", "ops": ops}


LAYOUT_DIMS = [[3, 4], [4, 3], [2, 4], [3, 2, 4], [2, 3, 3], [3, 4, 2], [4, 2, 3], [4], [3, 3]]
MASKED_WRAPS = ["masked", "masked", "qty_masked", "qty_masked", "array", "qty"]


def _gen_multi_case(rng, flavour=None):
    """one output, 2-3 consumers (direct or behind Scale(1.0)) that are not in lockstep: per-consumer mostly non-decreasing
    requests, mutually out of step, plus some backwards requests"""
    g = dict(rng.choice([{"kind": "no", "dsh": []}, {"kind": "no", "dsh": []}, {"kind": "no", "dsh": [-1]},
                         {"kind": "uni", "dims": [3, 4], "order": "F", "rev": False, "loc": "cells"},
                         {"kind": "uni", "dims": [4], "order": "F", "rev": False, "loc": "cells"}]))
    grp = rng.choice([["m", "km", "cm", "mm"], ["s", "min", "h"], ["Hz", "1/s", "1/min"], ["m/s", "km/h", "mm/d"]])
    uo = rng.choice(grp)
    consumers = [{"kind": rng.choice(["direct", "direct", "scale"]), "ui": rng.choice(grp + [None])} for _ in range(rng.choice([2, 2, 3]))]
    mem_limit, wraps = None, None
    if flavour == "relay":
        # producer and consumers store the same grid in different layouts (axes order / direction)
        dims = list(rng.choice(LAYOUT_DIMS))
        nd = len(dims)
        both_rev = rng.random() < 0.5
        g = {"kind": "uni", "dims": dims, "order": rng.choice(["F", "C"]), "rev": both_rev or rng.random() < 0.5,
             "inc": [rng.random() < 0.6 for _ in range(nd)], "loc": rng.choice(["cells", "cells", "points"])}
        consumers = consumers[: rng.choice([1, 2, 2])]
        for c in consumers:
            c["kind"] = rng.choice(["direct", "direct", "direct", "scale"])
            inc = list(g["inc"])
            for a in rng.sample(range(nd), rng.randint(0, nd)):
                inc[a] = not inc[a]
            c["lay"] = {"rev": True if both_rev else rng.random() < 0.5, "inc": inc, "order": rng.choice(["F", "C"])}
        if rng.random() < 0.2:
            consumers[-1].pop("lay")  # one consumer with the producer's own grid
    if flavour == "spill" or (flavour is None and rng.random() < 0.25) or (flavour == "relay" and rng.random() < 0.15):
        mem_limit = rng.choice([0, 0, 8, 64, 200, 400])
    if flavour == "spill":
        wraps = MASKED_WRAPS
        consumers = consumers[: rng.choice([1, 2, 2, 3])]
    npush = rng.randint(4, 10) if flavour != "relay" else rng.randint(2, 5)
    ts, gaps = _gen_times(rng, npush)
    ops, pubs, k = [], [], 0
    last = [None] * len(consumers)
    first = rng.randint(1 if flavour == "relay" else 2, min(4, npush))
    while len(ops) < 22:
        if k < len(ts) and (k < first or rng.random() < 0.25):
            ops.append(["push", ts[k], _gen_payload(rng, g, uo, "flex", k, False, False, wraps)])
            pubs.append(ts[k])
            k += 1
            continue
        c = rng.randrange(len(consumers))
        lo = last[c] if last[c] is not None else pubs[0]
        mode = rng.random()
        if mode < 0.15 and last[c] is not None:
            known = [x for x in last if x is not None]
            r = rng.randint(min(known), last[c])  # backwards, possibly still inside the retained range
        elif mode < 0.5:
            r = rng.choice([p for p in pubs if p >= lo] or [pubs[-1]])  # on a publication, anywhere ahead
        elif mode < 0.7:
            r = pubs[-1] - rng.choice([0, 0, 1, gaps[0] // 2])  # jump to the newest
            r = max(r, lo)
        else:
            r = _gen_request(rng, pubs, lo, gaps, False)
        ops.append(["pull", r, c] + (["scribble"] if rng.random() < 0.3 else []))
        if rng.random() < 0.25:
            ops.append(["pull", r, c] + (["scribble"] if rng.random() < 0.3 else []))  # the same publication once more
        if pubs[0] <= r <= pubs[-1]:
            last[c] = r
        if k >= len(ts) and rng.random() < 0.15:
            break
    if g["kind"] == "no" and g["dsh"] and flavour is None:
        for c in consumers:
            if rng.random() < 0.3:
                c["ngrid"] = _ngrid_variant(rng, g["dsh"])
    case = {"grid": g, "uo": uo, "ui": consumers[0]["ui"], "consumers": consumers, "mask": "flex", "in_mask": "flex", "ops": ops}
    if mem_limit is not None:
        case["mem_limit"] = mem_limit
    return case


def _p(shape, vals, wrap="array", mask=None, units=None, buf=None):
    return {"shape": shape, "vals": vals, "wrap": wrap, "mask": mask, "units": units, "buf": buf}


_NG0 = {"kind": "no", "dsh": []}
_NG1 = {"kind": "no", "dsh": [-1]}
_UF = {"kind": "uni", "dims": [3, 4], "order": "F", "rev": False, "loc": "cells"}
CORPUS = [
    # finding F8 (fixed): odd microsecond gaps, floor / ceiling midpoints
    {"grid": _NG0, "uo": "m", "ui": "km", "mask": "flex", "in_mask": "flex",
     "ops": [["push", 0, _p([], [8], "scalar")], ["push", 5, _p([], [16], "scalar")], ["pull", 2], ["pull", 3],
             ["push", 14, _p([], [24], "list")], ["pull", 9], ["pull", 10], ["pull", 15], ["pull", 4]]},
    # exact midpoint of an even gap, pull before any push
    {"grid": _NG0, "uo": "s", "ui": "min", "mask": "flex", "in_mask": "flex",
     "ops": [["pull", 0], ["push", 0, _p([], [480], "scalar")], ["push", 4, _p([], [960], "qty", units="h")], ["pull", 2], ["pull", 1], ["pull", 3]]},
    # F-ordered grid: flat payload is laid out in grid order; km -> m -> cm
    {"grid": _UF, "uo": "m", "ui": "cm", "mask": "flex", "in_mask": "flex",
     "ops": [["push", 0, _p([6], [0, 8, 16, 24, 32, 40], "qty", units="km")], ["pull", 0],
             ["push", 7, _p([2, 3], [1, 2, 3, 4, 5, 6])], ["pull", 7],
             ["push", 9, _p([1, 2, 3], [1, 2, 3, 4, 5, 6], "masked", mask=[False, True, False, False, False, True])], ["pull", 9],
             ["push", 11, _p([3, 2], [1, 2, 3, 4, 5, 6])], ["push", 12, _p([2, 2, 3], list(range(12)))], ["pull", 12]]},
    # explicit mask, shaped payloads; wrong size -> MaskError; incompatible quantity -> DataError
    {"grid": _UF, "uo": "degC", "ui": "K", "mask": [False, True, False, False, False, True], "in_mask": "same",
     "ops": [["push", 0, _p([2, 3], [1, 2, 3, 4, 5, 6])], ["pull", 0], ["push", 3, _p([5], [1, 2, 3, 4, 5])],
             ["push", 4, _p([2, 3], [1, 2, 3, 4, 5, 6], "qty", units="m")], ["push", 5, _p([1, 2, 3], [8, 2, 3, 4, 5, 6], "list")], ["pull", 5]]},
    # memory sharing: same object, overlapping view, neighbouring view, interleaved views, copy, converted
    {"grid": _NG1, "uo": "m", "ui": "m", "mask": "flex", "in_mask": "flex",
     "ops": [["push", 0, _p([4], None, buf={"pool": 0, "start": 0, "step": 1, "copy": False})],
             ["push", 1, _p([4], None, buf={"same_as": 0})],
             ["push", 2, _p([4], None, buf={"pool": 0, "start": 3, "step": 1, "copy": False})],
             ["push", 3, _p([4], None, buf={"pool": 0, "start": 4, "step": 1, "copy": False})],
             ["push", 4, _p([4], None, buf={"pool": 0, "start": 9, "step": 2, "copy": False})],
             ["push", 5, _p([4], None, buf={"pool": 0, "start": 10, "step": 2, "copy": False})],
             ["push", 6, _p([4], None, buf={"pool": 0, "start": 9, "step": 2, "copy": True})],
             ["push", 7, _p([4], None, "qty", units="km", buf={"pool": 1, "start": 0, "step": 1, "copy": False})],
             ["push", 8, _p([4], None, "qty", units="km", buf={"pool": 1, "start": 0, "step": 1, "copy": False})],
             ["push", 9, _p([4], None, "qty", units="m", buf={"pool": 1, "start": 0, "step": 1, "copy": False})],
             ["push", 10, _p([4], None, "masked", mask=[False, True, False, False], buf={"pool": 1, "start": 2, "step": 1, "copy": False})],
             ["pull", 9], ["pull", 10]]},
]
# 0-d masked quantity, nothing masked, converted: numpy returns a plain scalar (mask None == all False)
CORPUS.append({"grid": _NG0, "uo": "mm/d", "ui": "mm/d", "mask": "flex", "in_mask": "same",
               "ops": [["push", 86400000000, _p([], [0], "qty_masked", mask=[False], units="m/s")], ["pull", 86400000000],
                       ["push", 86400000001, _p([], [16], "qty_masked", mask=[True], units="m/s")], ["pull", 86400000001]]})
# two consumers out of step (seeded mutant C08_c): daily publications, consumer 0 pulls day 8, then consumer 1 pulls day 0;
# a consumer behind Scale; a backwards request inside the retained range
_DAY = 86400 * 10**6
CORPUS.append({"grid": _NG0, "uo": "m", "ui": "m", "consumers": [{"kind": "direct", "ui": "m"}, {"kind": "direct", "ui": "km"}, {"kind": "scale", "ui": None}],
               "mask": "flex", "in_mask": "flex",
               "ops": [["push", d * _DAY, _p([], [8 * d], "scalar")] for d in range(10)]
                      + [["pull", 8 * _DAY, 0], ["pull", 0, 1], ["pull", 1 * _DAY, 2], ["pull", 3 * _DAY + 1, 1], ["pull", 9 * _DAY, 0],
                         ["pull", 2 * _DAY, 2], ["pull", 1 * _DAY + 5, 2], ["pull", 6 * _DAY, 1], ["pull", 4 * _DAY, 1], ["pull", 9 * _DAY, 2], ["pull", 9 * _DAY, 1]]})
# compatible but differently laid out grids on the two ends (seeded mutant C08_e): both reversed, directions differ in y only /
# in x and y; a third consumer not reversed; shaped, flat and time-axis payloads; every cell keeps its value
_GL = {"kind": "uni", "dims": [3, 4], "order": "F", "rev": True, "inc": [True, False], "loc": "cells"}
CORPUS.append({"grid": _GL, "uo": "m", "ui": "m", "mask": "flex", "in_mask": "flex",
               "consumers": [{"kind": "direct", "ui": "m", "lay": {"rev": True, "inc": [True, True], "order": "F"}},
                             {"kind": "direct", "ui": "cm", "lay": {"rev": True, "inc": [False, True], "order": "C"}},
                             {"kind": "scale", "ui": "km", "lay": {"rev": False, "inc": [False, False], "order": "F"}}],
               "ops": [["push", 0, _p([3, 2], [1, 2, 3, 4, 5, 6])], ["pull", 0, 0], ["pull", 0, 1], ["pull", 0, 2],
                       ["push", 4, _p([6], [11, 12, 13, 14, 15, 16], "qty", units="km")], ["pull", 4, 0], ["pull", 4, 1], ["pull", 4, 2],
                       ["push", 9, _p([1, 3, 2], [21, 22, 23, 24, 25, 26], "masked", mask=[False, True, False, False, False, True])],
                       ["pull", 9, 0], ["pull", 9, 1], ["pull", 9, 2]]})
_GL3 = {"kind": "uni", "dims": [3, 2, 4], "order": "C", "rev": True, "inc": [True, True, False], "loc": "points"}
CORPUS.append({"grid": _GL3, "uo": "s", "ui": "s", "mask": "flex", "in_mask": "flex",
               "consumers": [{"kind": "direct", "ui": "s", "lay": {"rev": True, "inc": [False, True, False], "order": "C"}},
                             {"kind": "direct", "ui": "min", "lay": {"rev": True, "inc": [True, False, True], "order": "F"}}],
               "ops": [["push", 0, _p([4, 2, 3], list(range(24)))], ["pull", 0, 0], ["pull", 0, 1]]})
# publications spilled to disk under a memory limit (seeded mutant C08_f): masked payloads with their own, varying masks under
# Mask.FLEX must come back with values AND mask as published; limit 0 (all spilled) and a limit crossed mid-run
for _lim in (0, 40):
    CORPUS.append({"grid": _NG1, "uo": "m", "ui": "cm", "mask": "flex", "in_mask": "flex", "mem_limit": _lim,
                   "consumers": [{"kind": "direct", "ui": "cm"}, {"kind": "direct", "ui": None}],
                   "ops": [["push", 0, _p([3], [1, 2, 3], "masked", mask=[True, False, False])],
                           ["push", 5, _p([3], [9, 10, 11], "qty_masked", mask=[False, True, True], units="km")],
                           ["push", 14, _p([3], [17, 18, 19], "masked", mask=[False, False, False])],
                           ["push", 15, _p([3], [25, 26, 27])],
                           ["pull", 15, 0], ["pull", 0, 1], ["pull", 5, 1], ["pull", 12, 1], ["pull", 15, 1]]})
# seeded mutant C08_j: (a) producer alternating two pre-allocated Quantity buffers (updated in place), consumer in cm pulling
# every second publication; (b) consumer working in place on the converted array it pulled, then pulling the same publication again
CORPUS.append({"grid": _NG1, "uo": "m", "ui": "cm", "mask": "flex", "in_mask": "flex",
               "consumers": [{"kind": "direct", "ui": "cm"}, {"kind": "direct", "ui": "km"}],
               "ops": [["push", 0, _p([1, 2], [8, 16], "qty", units="m")], ["pull", 0, 0], ["pull", 0, 1, "scribble"], ["pull", 0, 1, "scribble"], ["pull", 0, 1],
                       ["push", 10, _p([1, 2], [40, 48], "qty", units="m")],
                       ["push", 20, _p([1, 2], [72, 80], "qty", units="m", buf={"reuse": 0})], ["pull", 20, 0], ["pull", 20, 1],
                       ["push", 30, _p([1, 2], [104, 112], "qty", units="m", buf={"reuse": 1})],
                       ["push", 40, _p([1, 2], [136, 144], "qty", units="m", buf={"reuse": 0})], ["pull", 40, 0, "scribble"], ["pull", 40, 0], ["pull", 31, 1]]})
# seeded mutant C08_k: the same buffer updated in place and published twice in a row must be refused also on outputs whose
# info carries an explicit mask / nomask (prepare wraps the payload without copying it); converted quantities and lists are fresh
for _m in ([False, True, False], "nomask", "flex", "none"):
    CORPUS.append({"grid": {"kind": "no", "dsh": [3]}, "uo": "m", "ui": "m", "mask": _m, "in_mask": "flex",
                   "ops": [["push", 0, _p([3], [8, 16, 24])], ["push", 5, _p([3], [32, 40, 48], buf={"reuse": 0})],
                           ["push", 6, _p([1, 3], [1, 2, 3], "qty", units="m")], ["push", 7, _p([1, 3], [4, 5, 6], "qty", units="m", buf={"reuse": 2})],
                           ["push", 8, _p([3], [1, 2, 3], "qty", units="km")], ["push", 9, _p([3], [4, 5, 6], "qty", units="km", buf={"reuse": 4})],
                           ["push", 10, _p([3], [1, 2, 3], "list")], ["push", 11, _p([3], [4, 5, 6], "list", buf={"same_as": 6})]]})
# seeded change C08_m: consumers with their own NoGrid data shape.  flexible producer -> fixed consumer (and the reverse) is refused at
# the exchange; equal shapes (also partly flexible) link, and what arrives fits the consumer's declared shape
CORPUS.append({"grid": _NG1, "uo": "m", "ui": "cm", "mask": "flex", "in_mask": "flex",
               "consumers": [{"kind": "direct", "ui": "cm", "ngrid": [3]}],
               "ops": [["push", 0, _p([3], [8, 16, 24])], ["pull", 0, 0], ["push", 5, _p([5], [1, 2, 3, 4, 5])], ["pull", 5, 0]]})
CORPUS.append({"grid": {"kind": "no", "dsh": [3]}, "uo": "m", "ui": "m", "mask": "flex", "in_mask": "flex",
               "consumers": [{"kind": "direct", "ui": "m", "ngrid": [-1]}], "ops": [["push", 0, _p([3], [8, 16, 24])], ["pull", 0, 0]]})
CORPUS.append({"grid": {"kind": "no", "dsh": [-1, -1]}, "uo": "km", "ui": "m", "mask": "flex", "in_mask": "flex",
               "consumers": [{"kind": "direct", "ui": "m", "ngrid": [2, -1]}],
               "ops": [["push", 0, _p([2, 2], [1, 2, 3, 4])], ["pull", 0, 0], ["push", 9, _p([3, 2], [1, 2, 3, 4, 5, 6])], ["pull", 9, 0]]})
CORPUS.append({"grid": {"kind": "no", "dsh": [2, -1]}, "uo": "km", "ui": "m", "mask": "flex", "in_mask": "flex",
               "consumers": [{"kind": "direct", "ui": "m", "ngrid": [2, -1]}, {"kind": "scale", "ui": "cm", "ngrid": [2, -1]}, {"kind": "direct", "ui": None}],
               "ops": [["push", 0, _p([2, 2], [1, 2, 3, 4])], ["pull", 0, 0], ["push", 9, _p([1, 2, 3], [1, 2, 3, 4, 5, 6], "qty", units="m")],
                       ["pull", 9, 1], ["pull", 4, 2], ["pull", 5, 0]]})
# witness of KNOWN finding F21: converting a fully masked 0-d quantity yields numpy's np.ma.masked singleton, so the second
# such publication "shares memory" with the first although the caller's buffers are distinct (finam refuses it)
CORPUS.append({"grid": _NG0, "uo": "km/h", "ui": "km/h", "mask": "flex", "in_mask": "flex",
               "ops": [["push", 0, _p([], [8], "qty_masked", mask=[True], units="mm/d")],
                       ["push", 5, _p([], [16], "qty_masked", mask=[True], units="mm/d")], ["pull", 5]]})
# witness of finding F10 (fixed by bb44bc1): flat plain payload + fixed mask + F-ordered grid, the mask must sit on cell [0,1]
CORPUS.append({"grid": _UF, "uo": "m", "ui": "m", "mask": [False, True, False, False, False, False], "in_mask": "same",
               "ops": [["push", 0, _p([6], [0, 8, 16, 24, 32, 40])], ["pull", 0],
                       ["push", 3, _p([6], [0, 8, 16, 24, 32, 40], "qty", units="km")], ["pull", 3]]})


def generate(rng, tier):
    n = 2400 if tier == "quick" else 30000
    cases = list(CORPUS)
    for i in range(n):
        if i % 5 == 4:
            cases.append(_gen_share_case(rng))
        elif i % 5 == 2:
            fl = [None, "relay", "spill", "relay", "dbuf"][(i // 5) % 5]
            cases.append(_gen_dbuf_case(rng) if fl == "dbuf" else _gen_multi_case(rng, fl))
        else:
            cases.append(_gen_case(rng, malformed=(i % 5 == 3), exact=(i % 5 == 0)))
    return cases


# ----------------------------------------------------------------------------
# implementation driver
# ----------------------------------------------------------------------------
def _mask_arg(spec, shape):
    if spec == "flex":
        return fm.Mask.FLEX
    if spec == "none":
        return fm.Mask.NONE
    if spec == "nomask":
        return np.ma.nomask
    return np.array(spec, dtype=bool).reshape(shape)


def _raw_array(x):
    """the ndarray holding the numbers of a pushed object (None for python scalars / lists)"""
    m = x.magnitude if hasattr(x, "magnitude") else x
    if isinstance(m, np.ma.MaskedArray):
        return m.data
    return m if isinstance(m, np.ndarray) else None


def _bounds(a):
    lo, hi = np.lib.array_utils.byte_bounds(a)
    b = a
    while b.base is not None and isinstance(b.base, np.ndarray):
        b = b.base
    return b, lo, hi


def _frac_list(a):
    return [[Fraction(float(v)).numerator, Fraction(float(v)).denominator] for v in np.asarray(a, dtype=float).ravel()]


def _unit_name(u):
    for name in UNIT_TABLE:
        if fm.UNITS.Unit(name) == u:
            return name
    return "?" + str(u)


def _consumers(case):
    """consumers of the output: [{"kind": "direct" | "scale", "ui": units or None}]; old-style cases have one direct consumer"""
    return case.get("consumers") or [{"kind": "direct", "ui": case["ui"]}]


def run_impl(case):
    t0 = T(0)
    grid = make_grid(case["grid"])
    gshape = [int(x) for x in grid.data_shape]
    order = getattr(grid, "order", "C")
    mask_out = _mask_arg(case["mask"], gshape)
    out = fm.Output(name="Out")
    tmpdir = None
    if case.get("mem_limit") is not None:
        import tempfile
        tmpdir = tempfile.mkdtemp(prefix="verif_c08_")
        out.memory_limit = case["mem_limit"]
        out.memory_location = tmpdir
    consumers = _consumers(case)
    cgrids = [make_grid({"kind": "no", "dsh": c["ngrid"]}) if c.get("ngrid") is not None
              else grid if not c.get("lay") else make_grid(cons_grid_desc(case, c)) for c in consumers]
    inputs = []
    for i, c in enumerate(consumers):
        inp = fm.Input(name=f"In{i}")
        if c["kind"] == "scale":
            out >> fm.adapters.Scale(1.0) >> inp
        else:
            out >> inp
        inputs.append(inp)
    for inp in inputs:
        inp.ping()
    out.push_info(fm.Info(time=t0, grid=grid, units=case["uo"], mask=mask_out))
    in_mask = fm.Mask.FLEX if case.get("in_mask", "flex") == "flex" else mask_out
    cons_shapes = [[int(x) for x in cg.data_shape] for cg in cgrids]
    try:
        for inp, c, cg in zip(inputs, consumers, cgrids):
            if c["ui"] is None:
                inp.exchange_info(fm.Info(time=t0, grid=cg, units=None, mask=in_mask))
            else:
                inp.exchange_info(fm.Info(time=t0, grid=cg, mask=in_mask, units=c["ui"]))
    except Exception as e:  # noqa
        # the link is not established: no data crosses
        if tmpdir is not None:
            import shutil
            shutil.rmtree(tmpdir, ignore_errors=True)
        return {"gshape": gshape, "order": order, "cons_units": [c["ui"] if c["ui"] is not None else case["uo"] for c in consumers],
                "cons_shapes": cons_shapes, "spilled": 0, "exchange": err_class(e), "events": []}
    cons_units = [_unit_name(inp.info.units) for inp in inputs]
    cons_shapes = [[int(x) for x in cg.data_shape] for cg in cgrids]
    # the key under which the output knows each consumer (the final input, also behind pass-through adapters)
    assert [k for k in getattr(out, "_connected_inputs", inputs)] == inputs   # private member: checked only if present

    pools = [np.array([float(pool_val(k, i)) for i in range(POOL_LEN)]) for k in range(2)]
    allocs = {}  # id(base ndarray) -> small int
    keep = []    # keeps every pushed object alive (ids stay unique)
    pushed = []  # python objects of the pushes, by push index
    events = []
    last_raw = None  # the ndarray handed in with the last accepted publication
    for op in case["ops"]:
        if op[0] == "push":
            p = op[2]
            b = p.get("buf")
            if b is not None and ("same_as" in b or "reuse" in b):
                obj = pushed[b["same_as"] if "same_as" in b else b["reuse"]]
                rawj = _raw_array(obj)
                if "reuse" in b and rawj is not None:
                    # the producer updates its buffer in place and publishes the same object again
                    rawj[...] = np.array([v / 8.0 for v in p["vals"]], dtype=float).reshape(rawj.shape)
            else:
                size = _prod(p["shape"])
                if b is not None:
                    view = pools[b["pool"]][b["start"]: b["start"] + size * b["step"]: b["step"]]
                    base = view.copy() if b.get("copy") else view
                    a = base.reshape(p["shape"])
                    assert b.get("copy") or np.shares_memory(a, pools[b["pool"]])
                else:
                    a = np.array([v / 8.0 for v in p["vals"]], dtype=float).reshape(p["shape"])
                w = p["wrap"]
                if w == "scalar":
                    obj = float(a)
                elif w == "list":
                    obj = a.tolist()
                elif w == "array":
                    obj = a
                elif w == "masked":
                    obj = np.ma.array(a, mask=np.array(p["mask"], dtype=bool).reshape(p["shape"]))
                elif w == "qty":
                    obj = fm.UNITS.Quantity(a, p["units"])
                else:
                    obj = fm.UNITS.Quantity(np.ma.array(a, mask=np.array(p["mask"], dtype=bool).reshape(p["shape"])), p["units"])
            pushed.append(obj)
            keep.append(obj)
            raw = _raw_array(obj)
            # what numpy says the pushed object is
            mag = obj.magnitude if hasattr(obj, "magnitude") else obj
            arr_np = np.ma.asarray(mag) if isinstance(mag, np.ma.MaskedArray) else np.asarray(mag, dtype=float)
            desc = {"shape": [int(x) for x in arr_np.shape], "vals": _frac_list(np.ma.getdata(arr_np)),
                    "mask": [bool(x) for x in np.ma.getmaskarray(arr_np).ravel()] if isinstance(mag, np.ma.MaskedArray) else None,
                    "units": _unit_name(obj.units) if hasattr(obj, "units") and hasattr(obj, "magnitude") else None}
            if raw is not None:
                base, lo, hi = _bounds(raw)
                blo = np.lib.array_utils.byte_bounds(base)[0]
                desc["buf"] = [allocs.setdefault(id(base), len(allocs)), int(lo - blo), int(hi - blo)]
                keep.append(base)
            else:
                desc["buf"] = None
            # ground truth for the monitor: do two retained publications really overlap in memory afterwards?
            really = False
            # does the handed-in array really overlap the array handed in for the previously accepted publication?
            raw_shares_prev = bool(raw is not None and last_raw is not None and np.shares_memory(last_raw, raw))
            prev_spilled = bool(out.data) and isinstance(out.data[-1][1], str)
            try:
                out.push_data(obj, T(op[1]))
                res = "ok"
                last_raw = raw
                if len(out.data) >= 2 and not isinstance(out.data[-1][1], str) and not isinstance(out.data[-2][1], str):
                    really = bool(np.shares_memory(np.ma.getdata(out.data[-1][1].magnitude), np.ma.getdata(out.data[-2][1].magnitude)))
            except Exception as e:  # noqa
                res = err_class(e)
            events.append({"op": "push", "t": op[1], "payload": desc, "res": res, "really_shares": really,
                           "raw_shares_prev": raw_shares_prev, "prev_spilled": prev_spilled})
        else:
            oldest = us_of(out.data[0][0]) if out.data else None
            newest = us_of(out.data[-1][0]) if out.data else None
            k = op[2] if len(op) > 2 else 0
            try:
                d = inputs[k].pull_data(T(op[1]))
                m = d.magnitude
                res = {"shape": [int(x) for x in m.shape], "vals": _frac_list(np.ma.getdata(m)),
                       "mask": [bool(x) for x in np.ma.getmaskarray(m).ravel()] if isinstance(m, np.ma.MaskedArray) else None,
                       "units": _unit_name(d.units)}
                scribbled = False
                if len(op) > 3 and op[3] == "scribble":
                    # a consumer working in place on the array it received - only if that array is its own (shares no
                    # memory with a retained publication: without conversion finam hands out the stored array itself)
                    arr = np.ma.getdata(m)
                    own = isinstance(arr, np.ndarray) and not any(
                        (not isinstance(e[1], str)) and np.shares_memory(np.ma.getdata(e[1].magnitude), arr) for e in out.data)
                    if own:
                        arr[...] = arr * 0.25 + 1000.0
                        scribbled = True
            except Exception as e:  # noqa
                res = err_class(e)
                scribbled = False
            events.append({"op": "pull", "t": op[1], "k": k, "res": res, "oldest": oldest, "newest": newest, "scribbled": scribbled})
    spilled = 0
    if tmpdir is not None:
        import os
        import shutil
        spilled = getattr(out, "_mem_counter", 0)  # number of publications written to disk (evidence only; private)
        out.finalize()
        left = os.listdir(tmpdir)
        shutil.rmtree(tmpdir, ignore_errors=True)
        assert not left, left
    return {"gshape": gshape, "order": order, "cons_units": cons_units, "cons_shapes": cons_shapes, "spilled": spilled, "events": events}


# ----------------------------------------------------------------------------
# Gallina emitter
# ----------------------------------------------------------------------------
def _coq_unit(name):
    if name not in UNIT_TABLE:
        return C("mkU", L([Z(99)]), Q(1), Q(0))  # a unit outside the table: forces a mismatch
    dims, fac, off = UNIT_TABLE[name]
    return C("mkU", L(Z(d) for d in dims), Q(fac), Q(off))


def _coq_arr(shape, vals, mask):
    return C("mkA", L(N(x) for x in shape), L(Q(Fraction(v[0], v[1])) for v in vals),
             NONE if mask is None else Some(L(B(b) for b in mask)))


def _coq_grid(case, obs):
    if case["grid"]["kind"] == "no":
        return C("GNo", L(NONE if x == -1 else Some(N(x)) for x in obs["gshape"]))
    return C("GStruct", L(N(x) for x in obs["gshape"]), B(obs["order"] == "F"))


def coq_case(case, obs):
    m = case["mask"]
    # np.ma.nomask = a one-element all-false mask that numpy resizes to any data
    mask = "MFlex" if m == "flex" else "MNone" if m == "none" else C("MBits", L([B(False)])) if m == "nomask" else C("MBits", L(B(b) for b in m))
    inf = C("mkI", _coq_grid(case, obs), _coq_unit(case["uo"]), mask)
    ops = []
    for ev in obs["events"]:
        if ev["op"] == "push":
            p = ev["payload"]
            buf = NONE if p["buf"] is None else Some(P(N(p["buf"][0]), Z(p["buf"][1]), Z(p["buf"][2])))
            ops.append(C("LPush", Z(ev["t"]), C("mkP", _coq_arr(p["shape"], p["vals"], p["mask"]),
                                                NONE if p["units"] is None else Some(_coq_unit(p["units"])), buf)))
        else:
            ops.append(C("LPull", N(ev.get("k", 0)), Z(ev["t"])))
    cons = []
    for c, u in zip(_consumers(case), obs["cons_units"]):
        if c.get("lay"):
            g = case["grid"]
            dims_xyz = obs["gshape"][::-1] if g["rev"] else obs["gshape"]
            lay = lambda rev, inc: C("mkL", B(rev), L(B(b) for b in inc))  # noqa: E731
            relay = Some(C("mkR", L(N(x) for x in dims_xyz), lay(g["rev"], g.get("inc") or [True] * len(dims_xyz)),
                           lay(c["lay"]["rev"], c["lay"]["inc"])))
        else:
            relay = NONE
        ng = NONE if c.get("ngrid") is None else Some(L(NONE if x == -1 else Some(N(x)) for x in c["ngrid"]))
        cons.append(C("mkCo", _coq_unit(u), relay, ng))
    return P(C("mkC", inf, L(cons)), L(ops))


def coq_obs(case, obs):
    if obs.get("exchange"):
        # MetaDataError: the model's OExchErr; any other class is something the model cannot produce
        return L(["OExchErr"] if obs["exchange"] == "MetaDataError" else [C("OPush", NONE), C("OPush", NONE)])
    res = []
    for ev in obs["events"]:
        r = ev["res"]
        if ev["op"] == "push":
            if r == "ok":
                res.append(C("OPush", NONE))
            elif r == "DataError":
                res.append(C("OPush", Some("EData")))
            elif r == "MaskError":
                res.append(C("OPush", Some("EMask")))
            else:
                res.append(C("OPull", "RNoData"))  # an outcome the model cannot produce for a push: forces a mismatch
        else:
            if isinstance(r, dict):
                res.append(C("OPull", C("RArr", _coq_arr(r["shape"], r["vals"], r["mask"]), _coq_unit(r["units"]))))
            elif r == "TimeError":
                res.append(C("OPull", "RTime"))
            elif r == "NoDataError":
                res.append(C("OPull", "RNoData"))
            elif r == "DataError":
                res.append(C("OPull", "RData"))
            else:
                res.append(C("OPush", NONE))  # unknown error class: forces a mismatch
    return L(res)


# ----------------------------------------------------------------------------
# property monitor (on the implementation's own trace; independent of the Coq model)
# ----------------------------------------------------------------------------
TOL = Fraction(1, 2**40)


def _conv(u, v, x):
    du, fu, ou = UNIT_TABLE[u]
    dv, fv, ov = UNIT_TABLE[v]
    return (x * fu + ou - ov) / fv


def _expected_form(case, obs, p):
    """declarative acceptance rule: returns (k, source index function C-position-in-grid -> C-position-in-payload,
    cell shape) or None if the payload's shape is not one of the accepted forms"""
    sh = p["shape"]
    gs = obs["gshape"]
    if case["grid"]["kind"] == "no":
        def matches(s):
            return len(s) == len(gs) and all(g == -1 or g == x for g, x in zip(gs, s))
        if matches(sh):
            return 1, None, list(sh)
        if len(sh) == len(gs) + 1 and sh[0] == 1 and matches(sh[1:]):
            return 1, None, list(sh[1:])
        return None
    n = _prod(gs)
    if list(sh) == list(gs) or list(sh) == [1] + list(gs):
        return 1, None, list(gs)
    if len(sh) == 1 and sh[0] == n:
        if obs["order"] == "F":
            perm = np.arange(n).reshape(gs, order="F").ravel().tolist()  # grid cell (C position) -> flat payload position
            return 1, perm, list(gs)
        return 1, None, list(gs)
    if len(sh) == len(gs) + 1 and sh[0] > 1 and list(sh[1:]) == list(gs):
        if isinstance(case["mask"], list) and len(case["mask"]) > 1 and p["mask"] is None:
            return None  # k stacked entries do not fit the fixed mask of one entry (numpy MaskError)
        return sh[0], None, list(gs)
    return None


def _close(x, y):
    return abs(x - y) <= TOL * max(1, abs(x))


def _relay_of(case, obs, ck):
    """consumer C position -> producer C position of the same physical cell (None: same layout)"""
    c = _consumers(case)[ck]
    if not c.get("lay"):
        return None, None
    g = case["grid"]
    dims_xyz = obs["gshape"][::-1] if g["rev"] else obs["gshape"]
    src = layout_positions(dims_xyz, g["rev"], g.get("inc") or [True] * len(dims_xyz))
    dst = layout_positions(dims_xyz, c["lay"]["rev"], c["lay"]["inc"])
    where = {cid: q for q, cid in enumerate(src)}
    return [where[cid] for cid in dst], obs["cons_shapes"][ck]


def _check_delivery(case, obs, pub, r, cons, ck=0):
    """r: delivered array description; pub: accepted payload description.  Returns failure text or None."""
    k, perm, cell = pub["form"]
    relay, cshape = _relay_of(case, obs, ck)
    if relay is not None:
        n0 = _prod(cell)
        # consumer cell -> producer cell -> position in the payload
        perm = [(relay[j % n0] if perm is None else perm[relay[j % n0]]) + (j // n0) * n0 for j in range(k * n0)]
        cell = list(cshape)
    if r["shape"] != [k] + cell:
        return f"delivered shape {r['shape']}, expected {[k] + cell}"
    declared = obs["cons_shapes"][ck]  # what the consumer's own grid says (-1: any length)
    if len(declared) != len(r["shape"]) - 1 or any(g != -1 and g != x for g, x in zip(declared, r["shape"][1:])):
        return f"delivered shape {r['shape']} does not fit the consumer grid's data shape {declared}"
    if r["units"] != cons:
        return f"delivered units {r['units']!r}, consumer units {cons!r}"
    p = pub["payload"]
    src_u = p["units"] if p["units"] is not None else case["uo"]
    n = _prod(cell)
    bits = case["mask"] if isinstance(case["mask"], list) else None
    for j in range(k * n):
        src = j if perm is None else (perm[j] if len(perm) == k * n else perm[j % n] + (j // n) * n)
        if p["mask"] is not None:
            want_m = p["mask"][src]
        elif bits is not None:
            want_m = bits[j % len(bits)] if len(bits) > 1 else bits[0]
        else:
            want_m = None
        got_m = None if r["mask"] is None else r["mask"][j]
        if bool(want_m) != bool(got_m):  # no mask at all == nothing masked
            return f"mask at C-position {j}: delivered {got_m}, demanded {want_m}"
        if want_m:
            continue
        want = _conv(src_u, cons, Fraction(*p["vals"][src]))
        got = Fraction(*r["vals"][j])
        if not _close(want, got):
            return f"value at C-position {j}: delivered {float(got)!r}, published {float(Fraction(*p['vals'][src]))!r} {src_u} = {float(want)!r} {cons}"
    return None


def _sim(case, obs):
    fails = []
    pubs = []  # accepted publications: {"t", "payload", "form"}
    between = False
    nonscalar = False
    if obs.get("exchange"):
        # a refused link is no violation (no data crosses) unless both ends declare the very same data shape
        same = all(c.get("ngrid") is None or list(c["ngrid"]) == list(obs["gshape"]) for c in _consumers(case))
        if same and not any(c.get("lay") for c in _consumers(case)):
            fails.append(f"info exchange between identical grids refused with {obs['exchange']}")
        return fails, False, False
    for ev in obs["events"]:
        if ev["op"] == "push":
            p = ev["payload"]
            form = _expected_form(case, obs, p)
            units_ok = p["units"] is None or UNIT_TABLE[p["units"]][0] == UNIT_TABLE[case["uo"]][0]
            accepted = ev["res"] == "ok"
            if ev["really_shares"] and accepted:
                fails.append(f"push at t={ev['t']}: accepted, and the stored publication shares memory with the previous one")
            if (accepted and ev.get("raw_shares_prev") and not ev.get("prev_spilled") and pubs
                    and not _needs_conversion(p["units"], case["uo"]) and not _needs_conversion(pubs[-1]["payload"]["units"], case["uo"])):
                # (a quantity in foreign units is converted into fresh memory by prepare: accepting it is legitimate)
                fails.append(f"push at t={ev['t']}: the array shares memory with the array published before (t={pubs[-1]['t']}), "
                             f"neither needed a unit conversion, and it was accepted instead of refused")
            if accepted and (form is None or not units_ok):
                fails.append(f"push at t={ev['t']}: payload of shape {p['shape']} / units {p['units']!r} accepted for grid shape {obs['gshape']} / units {case['uo']!r}")
            if not accepted and ev["res"] not in ("DataError", "MaskError"):
                fails.append(f"push at t={ev['t']}: refused with {ev['res']}")
            if not accepted and form is not None and units_ok:
                # a valid payload may only be refused for (possible) memory sharing: same allocation, overlapping bounds
                prevb = pubs[-1]["payload"]["buf"] if pubs else None
                b = p["buf"]
                overlap = (prevb is not None and b is not None and prevb[0] == b[0] and prevb[1] < b[2] and b[1] < prevb[2])
                if not overlap:
                    fails.append(f"push at t={ev['t']}: valid payload of shape {p['shape']} refused ({ev['res']})")
            if accepted:
                pubs.append({"t": ev["t"], "payload": p, "form": form})
            continue
        t, r = ev["t"], ev["res"]
        cons = obs["cons_units"][ev.get("k", 0)]
        if ev["oldest"] is None:
            if r != "NoDataError":
                fails.append(f"pull t={t} before any publication returned {r if isinstance(r, str) else 'data'}")
            continue
        if t < ev["oldest"] or t > ev["newest"]:
            if r != "TimeError":
                fails.append(f"pull t={t} outside [{ev['oldest']},{ev['newest']}] returned {r if isinstance(r, str) else 'data'}")
            continue
        if not isinstance(r, dict):
            fails.append(f"pull t={t} within [{ev['oldest']},{ev['newest']}] refused with {r}")
            continue
        dmin = min(abs(q["t"] - t) for q in pubs)
        cands = [q for q in pubs if abs(q["t"] - t) == dmin and q["form"] is not None]
        errs = [_check_delivery(case, obs, q, r, cons, ev.get("k", 0)) for q in cands]
        if not cands or all(errs):
            fails.append(f"pull t={t}: result is not the publication nearest in time ({[q['t'] for q in cands]}): " + (errs[0] if errs else "?"))
            continue
        if dmin > 0 and len(pubs) >= 2 and pubs[0]["t"] < t < pubs[-1]["t"]:
            between = True
        if len(r["vals"]) > 1:
            nonscalar = True
    return fails, between, nonscalar


def monitor(case, obs):
    fails, _, _ = _sim(case, obs)
    return fails[0] if fails else None


def nontrivial(case, obs):
    _, b, n = _sim(case, obs)
    return b or n


def _is_f9(case, obs, failure):
    if not (isinstance(case.get("mask"), list) and case["grid"]["kind"] == "uni" and obs.get("order") == "F" and len(obs["gshape"]) > 1):
        return False
    return any(ev["op"] == "push" and len(ev["payload"]["shape"]) == 1 and ev["payload"]["mask"] is None for ev in obs["events"])


def _needs_conversion(u, uo):
    return u is not None and u in UNIT_TABLE and uo in UNIT_TABLE and UNIT_TABLE[u][0] == UNIT_TABLE[uo][0] and UNIT_TABLE[u][1:] != UNIT_TABLE[uo][1:]


def _masked_scalar_converted(p, uo):
    return p["shape"] == [] and p["mask"] == [True] and _needs_conversion(p["units"], uo)


def _f21_events(case, obs):
    """push events refused with DataError where the refused payload and the previously stored publication are both 0-d, fully
    masked quantities that prepare() has to convert (both become the np.ma.masked singleton), buffers really distinct"""
    hits, prev = [], None
    for ev in obs.get("events", []):
        if ev["op"] != "push":
            continue
        p = ev["payload"]
        if ev["res"] == "ok":
            prev = p
        elif (ev["res"] == "DataError" and prev is not None and not ev["really_shares"]
              and _masked_scalar_converted(p, case["uo"]) and _masked_scalar_converted(prev, case["uo"])
              and not (p["buf"] is not None and prev["buf"] is not None and p["buf"][0] == prev["buf"][0]
                       and p["buf"][1] < prev["buf"][2] and prev["buf"][1] < p["buf"][2])):
            hits.append(ev["t"])
    return hits


def _is_f21(case, obs, failure):
    hits = _f21_events(case, obs)
    if not hits:
        return False
    if failure == "correspondence":
        return True
    return any(str(failure).startswith(f"push at t={t}: valid payload") for t in hits)


classifiers = {"flat_payload_fixed_mask_F_order": _is_f9, "fully_masked_scalar_conversion_singleton": _is_f21}


def distribution(cases, obss):
    from collections import Counter

    grids = Counter(("NoGrid%s" % c["grid"]["dsh"]) if c["grid"]["kind"] == "no" else "Uniform%s-%s%s" % (c["grid"]["dims"], c["grid"]["order"], "-rev" if c["grid"]["rev"] else "") for c in cases)
    wraps, pushres, pullres, forms, unitpairs = Counter(), Counter(), Counter(), Counter(), Counter()
    for c, o in zip(cases, obss):
        if "events" not in o:
            continue
        for cc in _consumers(c):
            unitpairs[f"{c['uo']}->{cc['ui']}"] += 1
        for op in c["ops"]:
            if op[0] == "push":
                wraps[op[2]["wrap"] + ("+view" if op[2].get("buf") else "")] += 1
        for ev in o["events"]:
            if ev["op"] == "push":
                pushres[ev["res"] + ("/shares" if ev["really_shares"] else "")] += 1
                f = _expected_form(c, o, ev["payload"])
                forms["invalid" if f is None else ("stacked" if f[0] > 1 else "flatF" if f[1] else "ok")] += 1
            else:
                pullres[ev["res"] if isinstance(ev["res"], str) else "data"] += 1
    own = Counter(("refused" if o.get("exchange") else "linked") for c, o in zip(cases, obss) if any(cc.get("ngrid") is not None for cc in _consumers(c)))
    return {"consumer_declares_own_nogrid": dict(own), "grids": dict(grids), "payload_wrappers": dict(wraps), "payload_forms": dict(forms), "push_results": dict(pushres),
            "pull_results": dict(pullres), "unit_pairs": len(unitpairs), "masks": dict(Counter("bits" if isinstance(c["mask"], list) else c["mask"] for c in cases))}


def shrink_candidates(case):
    ops = case["ops"]
    for i in range(len(ops) - 1, -1, -1):
        rest = ops[:i] + ops[i + 1:]
        if any(o[0] == "push" and o[2].get("buf") and "same_as" in o[2]["buf"] for o in rest) and ops[i][0] == "push":
            continue  # keeps 'same_as' indices valid
        if any(o[0] == "push" and o[2].get("buf") and "reuse" in o[2]["buf"] for o in ops):
            if ops[i][0] == "push" or any(o[0] == "push" for o in ops[i:]):
                continue  # keeps 'reuse' indices and the intact-buffer discipline valid: only trailing pulls are removed
        yield dict(case, ops=rest)
