"""C17 — units: compatibility is dimensional equality, conversion is physically exact.

Correspondence: a case is a *session* of unit queries and data conversions executed in one
process against finam's shared memo `_UNIT_PAIRS_CACHE` (cleared at the start of the case and
at scripted points): compatible_units / equivalent_units / pint.Unit identity / to_units /
prepare with an Info / Info.accepts / a real Output >> Input link (output info units, data
published with foreign units, consumer units).  The Coq model FV.Units.c17_model is evaluated on
the same op list (memo as association list keyed by the ordered pair of pint.Unit identities)
and must give the same answers (booleans, labels, error classes exactly; relabelled numbers
exactly; converted numbers within 1e-12 relative to the terms of the affine conversion).

The catalogue below is a hand-written table (name -> canonical pint key, dimension exponents,
factor, offset): an oracle for pint that is independent of pint.  The same table is
`catalogue` in coq/theories/Units.v (printed by `python -m harness.props.c17`).
"""
import math
from fractions import Fraction as F

from ..coqgen import B, C, L, N, NONE, P, Some, Q

ID = "C17"
TITLE = "Units: compatibility is dimensional equality, conversion is physically exact"
COQ_IMPORTS = "From FV Require Import Base Units."
COQ_CHECK = "c17_check"
COQ_MODEL_OBS = "c17_model"
CASE_TIMEOUT = 120

# ----------------------------------------------------------------------------------------------
# The catalogue.  dims = exponents of [length, mass, time, temperature, substance, current,
# luminosity]; one unit = factor * (base units) + offset (offset in base units).
# key = the canonical spelling pint reduces the name to (the identity of the pint.Unit, which is
# what `_UNIT_PAIRS_CACHE` is keyed by and what `units != units2` in to_units compares).
# ----------------------------------------------------------------------------------------------
PI = F("3.14159265358979323846264338327950288")  # rational approximation (35 digits) of pi
DEG = PI / 180
_L, _M, _T, _K, _N, _A, _J = range(7)


def _d(**kw):
    idx = {"L": _L, "M": _M, "T": _T, "K": _K, "N": _N, "A": _A, "J": _J}
    v = [0] * 7
    for k, e in kw.items():
        v[idx[k]] = e
    return v


CATALOGUE = [
    # name, key, dims, factor, offset
    ("m", "meter", _d(L=1), F(1), F(0)),
    ("meter", "meter", _d(L=1), F(1), F(0)),
    ("km", "kilometer", _d(L=1), F(1000), F(0)),
    ("mm", "millimeter", _d(L=1), F(1, 1000), F(0)),
    ("cm", "centimeter", _d(L=1), F(1, 100), F(0)),
    ("gpm", "meter", _d(L=1), F(1), F(0)),
    ("s", "second", _d(T=1), F(1), F(0)),
    ("ms", "millisecond", _d(T=1), F(1, 1000), F(0)),
    ("min", "minute", _d(T=1), F(60), F(0)),
    ("h", "hour", _d(T=1), F(3600), F(0)),
    ("d", "day", _d(T=1), F(86400), F(0)),
    ("day", "day", _d(T=1), F(86400), F(0)),
    ("yr", "year", _d(T=1), F(31557600), F(0)),
    ("kg", "kilogram", _d(M=1), F(1), F(0)),
    ("g", "gram", _d(M=1), F(1, 1000), F(0)),
    ("t", "metric_ton", _d(M=1), F(1000), F(0)),
    ("m2", "meter2", _d(L=2), F(1), F(0)),
    ("m^2", "meter2", _d(L=2), F(1), F(0)),
    ("km2", "kilometer2", _d(L=2), F(10**6), F(0)),
    ("ha", "hectare", _d(L=2), F(10**4), F(0)),
    ("m3", "meter3", _d(L=3), F(1), F(0)),
    ("m**3", "meter3", _d(L=3), F(1), F(0)),
    ("L", "liter", _d(L=3), F(1, 1000), F(0)),
    ("liter", "liter", _d(L=3), F(1, 1000), F(0)),
    ("1/s", "second-1", _d(T=-1), F(1), F(0)),
    ("s-1", "second-1", _d(T=-1), F(1), F(0)),
    ("Hz", "hertz", _d(T=-1), F(1), F(0)),
    ("m/s", "meter second-1", _d(L=1, T=-1), F(1), F(0)),
    ("m s-1", "meter second-1", _d(L=1, T=-1), F(1), F(0)),
    ("mm/d", "millimeter day-1", _d(L=1, T=-1), F(1, 86400000), F(0)),
    ("mm d-1", "millimeter day-1", _d(L=1, T=-1), F(1, 86400000), F(0)),
    ("mm/day", "millimeter day-1", _d(L=1, T=-1), F(1, 86400000), F(0)),
    ("km/h", "kilometer hour-1", _d(L=1, T=-1), F(1000, 3600), F(0)),
    ("mm/h", "millimeter hour-1", _d(L=1, T=-1), F(1, 3600000), F(0)),
    ("cm/s", "centimeter second-1", _d(L=1, T=-1), F(1, 100), F(0)),
    ("m3/s", "meter3 second-1", _d(L=3, T=-1), F(1), F(0)),
    ("m3 s-1", "meter3 second-1", _d(L=3, T=-1), F(1), F(0)),
    ("L/s", "liter second-1", _d(L=3, T=-1), F(1, 1000), F(0)),
    ("kg m-2 s-1", "kilogram meter-2 second-1", _d(M=1, L=-2, T=-1), F(1), F(0)),
    ("kg/m2/s", "kilogram meter-2 second-1", _d(M=1, L=-2, T=-1), F(1), F(0)),
    ("degC", "degree_Celsius", _d(K=1), F(1), F(27315, 100)),
    ("K", "kelvin", _d(K=1), F(1), F(0)),
    ("degF", "degree_Fahrenheit", _d(K=1), F(5, 9), F(45967, 180)),
    ("kelvin", "kelvin", _d(K=1), F(1), F(0)),
    ("degrees_Celsius", "degree_Celsius", _d(K=1), F(1), F(27315, 100)),
    ("degK", "kelvin", _d(K=1), F(1), F(0)),
    ("", "dimensionless", _d(), F(1), F(0)),
    ("1", "dimensionless", _d(), F(1), F(0)),
    ("dimensionless", "dimensionless", _d(), F(1), F(0)),
    ("%", "percent", _d(), F(1, 100), F(0)),
    ("percent", "percent", _d(), F(1, 100), F(0)),
    ("ppm", "ppm", _d(), F(1, 10**6), F(0)),
    ("psu", "practical_salinity_unit", _d(), F(1), F(0)),
    ("rad", "radian", _d(), F(1), F(0)),
    ("degree", "degree", _d(), DEG, F(0)),
    ("degrees_north", "degrees_north", _d(), DEG, F(0)),
    ("degrees_east", "degrees_east", _d(), DEG, F(0)),
    ("Pa", "pascal", _d(M=1, L=-1, T=-2), F(1), F(0)),
    ("hPa", "hectopascal", _d(M=1, L=-1, T=-2), F(100), F(0)),
    ("mbar", "millibar", _d(M=1, L=-1, T=-2), F(100), F(0)),
    ("N/m2", "newton meter-2", _d(M=1, L=-1, T=-2), F(1), F(0)),
    ("kg m-1 s-2", "kilogram meter-1 second-2", _d(M=1, L=-1, T=-2), F(1), F(0)),
    ("W", "watt", _d(M=1, L=2, T=-3), F(1), F(0)),
    ("J/s", "joule second-1", _d(M=1, L=2, T=-3), F(1), F(0)),
    ("W m-2", "watt meter-2", _d(M=1, T=-3), F(1), F(0)),
    ("W/m2", "watt meter-2", _d(M=1, T=-3), F(1), F(0)),
    ("kg/m3", "kilogram meter-3", _d(M=1, L=-3), F(1), F(0)),
    ("g/cm3", "gram centimeter-3", _d(M=1, L=-3), F(1000), F(0)),
    ("mol", "mole", _d(N=1), F(1), F(0)),
    ("mmol", "millimole", _d(N=1), F(1, 1000), F(0)),
    ("A", "ampere", _d(A=1), F(1), F(0)),
    ("cd", "candela", _d(J=1), F(1), F(0)),
    # offset units inside compound units are parsed by pint as temperature differences (no offset)
    ("K/h", "kelvin hour-1", _d(K=1, T=-1), F(1, 3600), F(0)),
    ("degC/h", "delta_degree_Celsius hour-1", _d(K=1, T=-1), F(1, 3600), F(0)),
    ("degF/h", "delta_degree_Fahrenheit hour-1", _d(K=1, T=-1), F(5, 9 * 3600), F(0)),
    ("W m-2 K-1", "watt meter-2 kelvin-1", _d(M=1, T=-3, K=-1), F(1), F(0)),
]
NCAT = len(CATALOGUE)
NAMES = [e[0] for e in CATALOGUE]
_KEYS = []
for _e in CATALOGUE:
    if _e[1] not in _KEYS:
        _KEYS.append(_e[1])
CID = [_KEYS.index(e[1]) for e in CATALOGUE]  # key identity as a number
DIMS = [e[2] for e in CATALOGUE]
FAC = [e[3] for e in CATALOGUE]
OFF = [e[4] for e in CATALOGUE]
SENTINEL = 4999  # "a label / error the model cannot produce": forces a mismatch

# A witness kept out of the catalogue (see the final report of the C17 builder): pint refuses
# delta_degC <-> degC (both of dimension [temperature], both convertible to K), i.e. on delta
# units "compatible" is not dimensional equality and not transitive.
WITNESS_DELTA = ("delta_degC", "degC", "K")

EPS = F(1, 10**12)
SHARD = 12  # cases per generated Coq file (parsing dominates; many small files run in parallel)

# Mask / array layouts of `prepare` and `link` ops (optional last element of the op; 0 when absent).
# The model is layout-blind: a mask does not change numbers.  A gridded op publishes 4 cell values
# derived from x on UniformGrid((3,3)) (data shape (2,2)); each judged (unmasked) cell is compared
# with the scalar model op on that cell's value (the op is expanded into one model op per cell).
LAYOUTS = ["NoGrid scalar", "grid / Mask.NONE / plain array", "grid / Mask.FLEX / plain array",
           "grid / Mask.FLEX / masked array", "grid / fixed mask / masked array", "grid / fixed mask / plain array"]
MASK = [False, True, False, False]  # row-major cells of the (2,2) data


def _lay(op):
    if op[0] == "prepare" and len(op) > 4:
        return op[4]
    if op[0] == "link" and len(op) > 5:
        return op[5]
    return 0


def _mode(op):
    """(static link?, number of reads) of a link op; optional elements 6, 7"""
    if op[0] == "link" and len(op) > 7:
        return bool(op[6]), int(op[7])
    return False, 1


DTYPES = ["float64", "int64", "int32", "int16"]  # payload dtypes (optional last element of to_units/prepare/link)


def _dt(op):
    pos = {"to_units": 5, "prepare": 5, "link": 8}.get(op[0])
    return op[pos] if pos is not None and len(op) > pos else 0


def _cells(x, lay, dt=0):
    """(all cell values as floats, indices of the judged cells); integer values for an integer dtype"""
    if dt:
        xi = int(x)
        if lay == 0:
            return [float(xi)], [0]
        vals = [float(xi), float(xi // 2 + 3), float(-xi), float(xi + 7)]
    else:
        x = float(x)
        if lay == 0:
            return [x], [0]
        vals = [x, 0.5 * x, -x, x + 0.25]
    return vals, (list(range(4)) if lay in (1, 2) else [i for i in range(4) if not MASK[i]])


def expand(op):
    """the scalar model ops of one op: one per read and judged cell (reads outermost)"""
    lay = _lay(op)
    _, reads = _mode(op)
    dt = _dt(op)
    if op[0] == "adapt":
        return _adapt_ops(op)
    if op[0] == "relay":
        return [_relay_scalar(op)]
    if op[0] == "to_units":
        return [op[:4] + [_cells(op[4], 0, dt)[0][0]]]
    if op[0] not in ("prepare", "link"):
        return [op]
    xi = 3 if op[0] == "prepare" else 4
    vals, judged = _cells(op[xi], lay, dt)
    return [op[:xi] + [vals[i]] for _ in range(reads) for i in judged]


def answers(op, got):
    """the observed answers aligned with expand(op)"""
    sops = expand(op)
    if op[0] == "adapt" and got[0] == "bool":
        # the connect phase either passes or is refused as a whole: every check but the last one is taken
        # as passed, the last one carries the observed verdict
        return [["bool", True]] * (len(sops) - 1) + [got]
    if got[0] == "multi":
        return got[1]
    return [got] * len(sops)


# styles of the relaying component of a "relay" op  [relay, s, m, o, d, x, style]
RELAY_STYLES = [
    "TimeTrigger(in_info units m, out_info units o)",                       # quantity forwarded, gain 1
    "TimeTrigger(in_info units None, out_info units None)",                 # In adopts s, Out adopts d
    "In declared m; Out = [FromInput(In), FromValue(units, o)]; pushes Quantity(2*mag, m)",
    "In declared m; Out = [FromInput(In), FromValue(units, o)]; pushes plain 2*mag (meant in o)",
    "Out declared o; In = [FromOutput(Out), FromValue(units, m)]; pushes Quantity(2*mag, m)",
    "Out declared o; In = [FromOutput(Out), FromValue(units, m)]; pushes plain 2*mag (meant in o)",
]


def _relay_scalar(op):
    """[relay_s, s, m, o, d, bare, gain, x]: the model op of a relay op"""
    _, s_, m, o, d, x, style = op
    if style == 1:
        m, o = s_, d
    return ["relay_s", s_, m, o, d, style in (3, 5), 1 if style in (0, 1) else 2, x]


def _adapt_ops(op):
    """the unit checks of the connect phase of  Output(a) >> real adapter >> Input(b)  as scalar ops.
    sum:  SumOverTime(per_time=True) asks upstream with units=None (no check there) and delivers
          (a * s) reduced; the input checks  compatible_units(b, delivered).
    hist: Histogram forwards the request (Output checks compatible_units(a, b)) and delivers counts
          (dimensionless); the input checks  compatible_units(b, '')."""
    _, kind, a, b = op
    if kind == "sum":
        return [["accsum", b, a]]
    if not compat(a, b):
        return [["accepts", a, b]]
    return [["accepts", a, b], ["accepts", b, NAMES.index("")]]


def _sum_dims(a):
    d = list(DIMS[a])
    d[_T] += 1
    return d

RULE = (
    "sessions of 40-400 operations (compatible_units / equivalent_units / pint.Unit identity / to_units with and "
    "without check_equivalent / prepare with an Info / Info.accepts / Output>>Input link with foreign published units) "
    f"over a hand-written catalogue of {NCAT} unit names ({len(_KEYS)} distinct pint units; SI, prefixes, powers, rates, "
    "degC/K/degF, percent/ppm/psu/radian/degree, dimensionless aliases, CF/UDUNITS spellings); sweep sessions cover "
    "every ordered pair of names in random order, focus sessions hammer 3-6 names (repeated and reversed queries), "
    "cache clears (API or dict.clear()) at random points; half of the prepare/link ops run on UniformGrid((3,3)) "
    "under Mask.NONE / Mask.FLEX / a fixed mask array with plain and masked-array payloads, every unmasked cell judged; links through adapters that change the "
    "unit dimension (an SDK adapter overriding _get_info that relabels the data with any catalogue unit: full value "
    "semantics; SumOverTime(per_time=True) and Histogram: verdict of the connect phase) with consumers compatible / "
    "incompatible with the DELIVERED units; fill ops (a state reset with full_like(template, "
    "Quantity in foreign units) and published) and chain ops (a real Composition: generator -> component whose input "
    "declares its own units and whose output info comes from connector.in_infos or a FromInput rule, pushing plain "
    "doubled magnitudes -> consumer) and relay ops (generator -> component with own units on BOTH sides: finam's "
    "TimeTrigger with in_info and out_info (explicit units / units=None), components whose In or Out info is composed "
    "by a field-less FromInput/FromOutput rule followed by FromValue('units', ..), pushing quantities or plain "
    "numbers -> consumer); 30% of the to_units/prepare/link payloads have an integer dtype (int64/int32/int16, "
    "plain and masked; the expected numbers are the exact rational conversion of the integers); 40% of the links are static (Output(static) >> Input(static), one publication) and "
    "links are read 1-4 times, every read judged; non-trivial = a session that repeats a pair after it was "
    "cached, contains a clear, and contains compatible-not-equivalent, equivalent-not-identical and incompatible pairs; "
    "distinct by canonical case hash"
)
TRUSTED = [
    "pint's parser/registry is an oracle: the catalogue table (name -> key, dims, factor, offset) is its model, "
    "validated on every run by the correspondence on all ordered pairs",
    "pi/180 (degree) is represented by a 35-digit rational approximation",
]
ASSUMPTIONS = [
    "integer payloads are generated only with a dtype wide enough for every converted value (narrow integer dtypes wrap "
    "around inside pint/NumPy when the conversion factor is integral, e.g. int16 250 h -> -17504 s on the unchanged tree)",
    "masks do not change numbers: a gridded prepare/link op is compared cell by cell (unmasked cells) with the scalar model op",
    "catalogue avoids nearly-equal units: finam's equivalent_units uses np.isclose (rtol 1e-5), the model uses exact == 1",
    "converted numbers are compared with relative tolerance 1e-12 (IEEE rounding not modelled); relabelled numbers exactly",
    "delta_* units are excluded (pint refuses delta <-> offset-unit conversion although the dimension is equal)",
]


# ----------------------------------------------------------------------------------------------
# pure dimensional analysis (monitor oracle; Fractions)
# ----------------------------------------------------------------------------------------------
def compat(i, j):
    return DIMS[i] == DIMS[j]


def conv(i, j, x):
    return (x * FAC[i] + OFF[i] - OFF[j]) / FAC[j]


def equiv(i, j):
    return compat(i, j) and conv(i, j, F(1)) == 1


def slack(i, j, x):
    return (abs(x) * FAC[i] + abs(OFF[i]) + abs(OFF[j])) / FAC[j]


def _pure_to_units(i, j, chk, x):
    if CID[i] == CID[j]:
        return ("val", i, False, x)
    if chk and equiv(j, i):
        return ("val", j, False, x)
    if not compat(i, j):
        return ("err", "DimensionalityError")
    return ("val", j, True, conv(i, j, x))


def _pure_prepare(i, j, x):
    if not compat(i, j):
        return ("err", "DataError")
    if equiv(i, j):
        return ("val", i, False, x)
    return ("val", j, True, conv(i, j, x))


def pure(op):
    """Expected answer of one op by dimensional analysis alone (no memo)."""
    k = op[0]
    if k == "clear":
        return ["unit"]
    if k == "compat":
        return ["bool", compat(op[1], op[2])]
    if k == "equiv":
        return ["bool", equiv(op[1], op[2])]
    if k == "same":
        return ["bool", CID[op[1]] == CID[op[2]]]
    if k == "accepts":
        return ["bool", compat(op[1], op[2])]
    if k == "accsum":
        return ["bool", DIMS[op[1]] == _sum_dims(op[2])]
    if k == "fill":
        f, a, b, x = op[1], op[2], op[3], F(op[4])
        if not compat(f, a):
            return ["err", "DimensionalityError"]
        if not compat(a, b):
            return ["err", "MetaDataError"]
        xs, sl1 = conv(f, a, x), slack(f, a, x)
        g = _pure_to_units(a, b, True, xs)
        return ["link", CID[a], True, xs, sl1, CID[g[1]], True, g[3], slack(a, b, xs) + sl1 * FAC[a] / FAC[b]]
    if k == "chain":
        s_, m, d, x = op[1], op[2], op[3], F(op[4])
        if not compat(s_, m) or not compat(m, d):
            return ["err", "MetaDataError"]
        g1 = _pure_to_units(s_, m, True, x)
        xs, sl1 = 2 * g1[3], 2 * slack(s_, m, x)
        g2 = _pure_to_units(m, d, True, xs)
        return ["link", CID[m], g1[2], xs, sl1, CID[g2[1]], g1[2] or g2[2], g2[3], slack(m, d, xs) + sl1 * FAC[m] / FAC[d]]
    if k == "relay_s":
        s_, m, o, d, bare, g, x = op[1], op[2], op[3], op[4], op[5], F(op[6]), F(op[7])
        if not compat(s_, m) or not compat(o, d):
            return ["err", "MetaDataError"]
        g1 = _pure_to_units(s_, m, True, x)
        gy, s1 = g * g1[3], abs(g) * slack(s_, m, x)
        if bare:
            st, t1 = ("val", o, False, gy), s1
        else:
            st = _pure_prepare(m, o, gy)
            if st[0] == "err":
                return ["err", st[1]]
            t1 = slack(m, o, gy) + s1 * FAC[m] / FAC[o]
        g2 = _pure_to_units(st[1], d, True, st[3])
        return ["link", CID[st[1]], g1[2] or st[2], st[3], t1, CID[g2[1]], g1[2] or st[2] or g2[2], g2[3],
                slack(o, d, st[3]) + t1 * FAC[o] / FAC[d]]
    if k == "alink":
        kk, a, d, b, x = op[1], op[2], op[3], op[4], F(op[5])
        if not compat(b, d):
            return ["err", "MetaDataError"]
        if kk is None:
            st, sl1 = ("val", a, False, x), F(0)
        else:
            st, sl1 = _pure_prepare(kk, a, x), slack(kk, a, x)
        if st[0] == "err":
            return ["err", st[1]]
        g = _pure_to_units(d, b, True, st[3])  # the adapter hands on the same numbers labelled d
        sl2 = slack(d, b, st[3]) + sl1 * FAC[d] / FAC[b]
        return ["link", CID[st[1]], st[2], st[3], sl1, CID[g[1]], st[2] or g[2], g[3], sl2]
    if k == "to_units":
        r = _pure_to_units(op[1], op[2], op[3], F(op[4]))
        return ["err", r[1]] if r[0] == "err" else ["val", CID[r[1]], r[2], r[3], slack(op[1], op[2], F(op[4]))]
    if k == "prepare":
        r = _pure_prepare(op[1], op[2], F(op[3]))
        return ["err", r[1]] if r[0] == "err" else ["val", CID[r[1]], r[2], r[3], slack(op[1], op[2], F(op[3]))]
    if k == "link":
        kk, a, b, x = op[1], op[2], op[3], F(op[4])
        if not compat(a, b):
            return ["err", "MetaDataError"]
        if kk is None:
            st = ("val", a, False, x)
            sl1 = F(0)
        else:
            st = _pure_prepare(kk, a, x)
            sl1 = slack(kk, a, x)
        if st[0] == "err":
            return ["err", st[1]]
        g = _pure_to_units(st[1], b, True, st[3])
        if g[0] == "err":
            return ["err", g[1]]
        sl2 = slack(st[1], b, st[3]) + sl1 * FAC[st[1]] / FAC[b]
        return ["link", CID[st[1]], st[2], st[3], sl1, CID[g[1]], st[2] or g[2], g[3], sl2]
    raise ValueError(k)


# ----------------------------------------------------------------------------------------------
# generator
# ----------------------------------------------------------------------------------------------
XS = [0.0, 1.0, 2.5, -40.0, 100.0, 273.15, 0.001, 86400.0, 1e6, -0.375, 12345.678, 3e-7]
INT_XS = [1500, 250, 3, -7, 0, 20, 15, -40, 8640, 1, 273]  # |values derived from them| < 2**15
OPK = ["compat", "equiv", "to_units", "prepare", "accepts", "link", "same"]


_BITS = {1: 63, 2: 31, 3: 15}
# Kept OUT of the generated domain (see ASSUMPTIONS): pint multiplies by a Python int when the conversion
# factor is integral (h -> s: 3600) and NumPy then keeps the narrow integer dtype, so the product wraps
# around silently on the unchanged tree: to_units / prepare / a link deliver -17504 s for int16 250 h.
WITNESS_INT_OVERFLOW = ["to_units", "h", "s", False, 250, 3]


def _fit_dt(dt, units, x, lay):
    """widen an integer dtype until every converted cell value fits it (no wrap-around in pint/NumPy)"""
    if not dt:
        return 0
    # at least 1: the integral factor itself must fit the dtype (int16 0 day -> s raises a bare OverflowError
    # in NumPy on the unchanged tree: "Python integer 86400 out of bounds for int16")
    vmax = max([1] + [abs(v) for v in _cells(x, lay, dt)[0]])
    us = [u for u in units if u is not None]
    bound = max([vmax] + [vmax * FAC[a] / FAC[b] for a in us for b in us if DIMS[a] == DIMS[b]])
    while dt > 1 and 4 * bound >= 2 ** _BITS[dt]:
        dt -= 1
    return dt


def _mk_op(rng, kind, i, j, third=None):
    if kind in ("compat", "equiv", "same", "accepts"):
        return [kind, i, j]
    if kind == "alink":  # i = units delivered by the adapter, j = units of the consumer
        a = rng.randrange(NCAT)
        k = None if rng.random() < 0.2 else _same_dim(rng, a) if rng.random() < 0.85 else rng.randrange(NCAT)
        return ["alink", k, a, i, j, rng.choice(XS)]
    if kind == "fill":  # i = units of the state / output, j = units of the consumer
        f = _same_dim(rng, i) if rng.random() < 0.9 else rng.randrange(NCAT)
        return ["fill", f, i, j, rng.choice(XS), rng.randrange(3)]
    if kind == "relay":  # i = units of the relaying component's output, j = units of the consumer
        m = _same_dim(rng, i) if rng.random() < 0.85 else rng.randrange(NCAT)
        s_ = _same_dim(rng, m) if rng.random() < 0.9 else rng.randrange(NCAT)
        return ["relay", s_, m, i, j, rng.choice(XS), rng.randrange(len(RELAY_STYLES))]
    if kind == "chain":  # i = own units of the component in the middle, j = units of the consumer
        s_ = _same_dim(rng, i) if rng.random() < 0.9 else rng.randrange(NCAT)
        return ["chain", s_, i, j, rng.choice(XS), rng.randrange(2)]
    if kind == "adapt":
        # (temperature sources are left out: SumOverTime fails inside pint for offset units, and a summed
        #  degC/h is a delta unit, which pint refuses to compare with degC/K/degF - see WITNESS_DELTA)
        if rng.random() < 0.6 and DIMS[i][_K] == 0:
            if rng.random() < 0.5:  # a consumer of the integrated dimension
                c = [n for n in range(NCAT) if DIMS[n] == _sum_dims(i)]
                j = rng.choice(c) if c else j
            return ["adapt", "sum", i, j]
        return ["adapt", "hist", i, j]
    dt = rng.choice([1, 1, 2, 3]) if rng.random() < 0.3 else 0  # integer-typed payloads
    x = rng.choice(INT_XS) if dt else rng.choice(XS)
    if kind == "to_units":
        return ["to_units", i, j, rng.random() < 0.6, x, _fit_dt(dt, [i, j], x, 0)]
    lay = 0 if rng.random() < 0.5 else rng.choice([1, 2, 3, 4, 5, 5, 5])
    if kind == "prepare":
        return ["prepare", i, j, x, lay, _fit_dt(dt, [i, j], x, lay)]
    if kind == "link":
        r = rng.random()
        k = None if r < 0.15 else (third if third is not None else rng.randrange(NCAT))
        static = rng.random() < 0.4
        reads = rng.choice([2, 2, 3, 4]) if static or rng.random() < 0.3 else 1
        return ["link", k, i, j, x, lay, static, reads, _fit_dt(dt, [k, i, j], x, lay)]
    raise ValueError(kind)


def _same_dim(rng, i):
    c = [j for j in range(NCAT) if DIMS[j] == DIMS[i]]
    return rng.choice(c)


def _focus_session(rng, n):
    """few names, mostly of one dimension: repeated / reversed pairs, all op kinds."""
    base = rng.randrange(NCAT)
    names = [base] + [_same_dim(rng, base) for _ in range(rng.randint(1, 4))]
    if rng.random() < 0.7:
        names.append(rng.randrange(NCAT))
    ops = []
    for _ in range(n):
        if rng.random() < 0.06:
            ops.append(["clear", rng.randrange(2)])
            continue
        i, j, k = rng.choice(names), rng.choice(names), rng.choice(names)
        if ops and len(ops[-1]) > 2 and rng.random() < 0.25:  # reversed / repeated pair of the previous op
            p = ops[-1]
            a, b = (p[2], p[3]) if p[0] in ("link", "adapt", "fill", "chain") else (p[3], p[4]) if p[0] == "relay" else (p[3], p[4]) if p[0] == "alink" else (p[1], p[2])
            i, j = (b, a) if rng.random() < 0.6 else (a, b)
        r = rng.random()
        kind = ("alink" if r < 0.07 else "adapt" if r < 0.11 else "fill" if r < 0.17 else "chain" if r < 0.22 else
                "relay" if r < 0.32 else
                rng.choice(OPK[:6]) if r < 0.96 else "same")
        ops.append(_mk_op(rng, kind, i, j, k))
    return {"ops": ops}


def _sweep_sessions(rng, per):
    pairs = [(i, j) for i in range(NCAT) for j in range(NCAT)]
    rng.shuffle(pairs)
    out = []
    for s in range(0, len(pairs), per):
        ops = []
        for (i, j) in pairs[s:s + per]:
            if rng.random() < 0.02:
                ops.append(["clear", rng.randrange(2)])
            r = rng.random()
            kind = ("compat" if r < 0.2 else "equiv" if r < 0.4 else "to_units" if r < 0.55 else
                    "prepare" if r < 0.67 else "accepts" if r < 0.72 else "same" if r < 0.75 else
                    "alink" if r < 0.8 else "adapt" if r < 0.83 else "fill" if r < 0.86 else "chain" if r < 0.89 else
                    "relay" if r < 0.93 else "link")
            third = _same_dim(rng, i) if rng.random() < 0.8 else None
            ops.append(_mk_op(rng, kind, i, j, third))
            if rng.random() < 0.3:  # ask the other half of the memo entry as well
                ops.append(["equiv" if kind == "compat" else "compat", i, j])
        out.append({"ops": ops})
    return out


def _i(n):
    return NAMES.index(n)


CORPUS = [
    # seeded/C17_l: finam's TimeTrigger with in_info AND out_info forwards the pulled QUANTITY (1.5 m through
    # In mm / Out km arrives as 150 cm); seeded/C17_m: a field-less FromInput/FromOutput rule followed by
    # FromValue("units", ..) must not rewrite the units of the slot the info was taken from
    {"ops": [["relay", _i("m"), _i("mm"), _i("km"), _i("cm"), 1.5, 0], ["relay", _i("m"), _i("m"), _i("m"), _i("km"), 1.5, 1],
             ["relay", _i("degC"), _i("degC"), _i("K"), _i("degF"), 20.0, 0], ["relay", _i("degC"), _i("K"), _i("K"), _i("K"), 20.0, 1],
             ["relay", _i("hPa"), _i("Pa"), _i("hPa"), _i("Pa"), 1013.25, 0], ["relay", _i("mm/d"), _i("mm/d"), _i("m/s"), _i("mm/h"), 12.0, 0],
             ["relay", _i("%"), _i("1"), _i("ppm"), _i("%"), 30.0, 0], ["relay", _i("m"), _i("mm"), _i("s"), _i("s"), 1.0, 0],
             ["relay", _i("m"), _i("s"), _i("s"), _i("s"), 1.0, 0], ["relay", _i("Hz"), _i("1/s"), _i("s-1"), _i("Hz"), 2.5, 0],
             ["relay", _i("mm"), _i("m"), _i("km"), _i("cm"), 1500.0, 2], ["relay", _i("mm"), _i("m"), _i("km"), _i("cm"), 1500.0, 3],
             ["relay", _i("mm"), _i("m"), _i("km"), _i("cm"), 1500.0, 4], ["relay", _i("mm"), _i("m"), _i("km"), _i("cm"), 1500.0, 5],
             ["relay", _i("degF"), _i("degC"), _i("K"), _i("degC"), 68.0, 2], ["relay", _i("K"), _i("degC"), _i("K"), _i("degF"), 300.0, 5],
             ["relay", _i("ppm"), _i("%"), _i("1"), _i("%"), 30.0, 3], ["relay", _i("m/s"), _i("mm/d"), _i("mm/h"), _i("m/s"), 1.0, 4],
             ["relay", _i("mm"), _i("m"), _i("s"), _i("s"), 1.0, 2], ["relay", _i("mm"), _i("m"), _i("s"), _i("s"), 1.0, 3],
             ["relay", _i("mm"), _i("s"), _i("km"), _i("cm"), 1.0, 4], ["relay", _i("mm"), _i("m"), _i("km"), _i("s"), 1.0, 5]]},
    # seeded/C17_j: full_like with a fill value that is a QUANTITY in foreign units must convert the fill value
    # (1.5 km into an m state -> 1500 m -> consumer cm 150000); seeded/C17_k: a component whose input declares its own
    # units and whose output info is derived from connector.in_infos / FromInput pushes plain numbers in ITS units
    {"ops": [["fill", _i("km"), _i("m"), _i("cm"), 1.5, 0], ["fill", _i("degC"), _i("K"), _i("degC"), 20.0, 1],
             ["fill", _i("%"), _i("1"), _i("ppm"), 30.0, 2], ["fill", _i("mm/d"), _i("m/s"), _i("mm/h"), 12.0, 0],
             ["fill", _i("degF"), _i("degC"), _i("K"), -40.0, 1], ["fill", _i("mbar"), _i("hPa"), _i("Pa"), 1013.25, 0],
             ["fill", _i("m"), _i("m"), _i("km"), 1.5, 2], ["fill", _i("s"), _i("m"), _i("m"), 1.0, 0], ["fill", _i("km"), _i("m"), _i("s"), 1.0, 0],
             ["chain", _i("m"), _i("mm"), _i("m"), 1.5, 0], ["chain", _i("m"), _i("mm"), _i("m"), 1.5, 1],
             ["chain", _i("degC"), _i("K"), _i("degC"), 20.0, 0], ["chain", _i("degC"), _i("degF"), _i("K"), 20.0, 1],
             ["chain", _i("km"), _i("m"), _i("km"), 2.5, 1], ["chain", _i("%"), _i("1"), _i("%"), 30.0, 0],
             ["chain", _i("Hz"), _i("1/s"), _i("s-1"), 2.5, 1], ["chain", _i("m"), _i("m"), _i("m"), 1.0, 0],
             ["chain", _i("m"), _i("s"), _i("m"), 1.0, 0], ["chain", _i("m"), _i("mm"), _i("s"), 1.0, 1]]},
    # seeded/C17_g: an adapter on the link changes the units; the consumer's units must be judged against the
    # units the adapter DELIVERS (refused with a metadata error when the dimension differs, converted otherwise)
    {"ops": [["alink", _i("kg"), _i("kg"), _i("kg m-2 s-1"), _i("kg m-2 s-1"), 2.5], ["alink", _i("kg"), _i("kg"), _i("kg m-2 s-1"), _i("kg"), 2.5],
             ["alink", _i("g"), _i("kg"), _i("mm"), _i("m"), 1500.0], ["alink", None, _i("m"), _i("mm"), _i("kg"), 1.0],
             ["alink", _i("mm/d"), _i("m/s"), _i("mm"), _i("mm/d"), 2.0], ["alink", _i("mm/d"), _i("m/s"), _i("degC"), _i("K"), 20.0],
             ["alink", _i("m"), _i("m"), _i("Hz"), _i("s-1"), 2.5], ["alink", _i("s"), _i("m"), _i("m"), _i("m"), 1.0],
             ["adapt", "sum", _i("mm/d"), _i("mm")], ["adapt", "sum", _i("mm/d"), _i("mm/d")], ["adapt", "sum", _i("m3/s"), _i("L")],
             ["adapt", "sum", _i("W m-2"), _i("W m-2")], ["adapt", "sum", _i("1/s"), _i("%")], ["adapt", "sum", _i("m"), _i("s")],
             ["adapt", "hist", _i("m"), _i("m")], ["adapt", "hist", _i("m"), _i("km")], ["adapt", "hist", _i("m"), _i("")],
             ["adapt", "hist", _i("%"), _i("1")], ["adapt", "hist", _i("rad"), _i("degree")]]},
    # seeded/C17_e: INTEGER-typed data (plain and masked, int64/int32/int16) must be converted to the exact
    # (non-integer) numbers: 1500 m -> 1.5 km, 15 % -> 0.15, 20 degC -> 293.15 K; over links and through to_units
    {"ops": [["to_units", _i("m"), _i("km"), True, 1500, 1], ["to_units", _i("m"), _i("km"), False, 250, 2],
             ["to_units", _i("degC"), _i("K"), True, 20, 3], ["to_units", _i("%"), _i("1"), True, 15, 1],
             ["link", _i("m"), _i("m"), _i("km"), 1500, 0, False, 1, 1], ["link", None, _i("m"), _i("km"), 250, 1, False, 2, 2],
             ["link", _i("Pa"), _i("Pa"), _i("hPa"), 15, 3, False, 1, 1], ["link", _i("degC"), _i("degC"), _i("K"), 20, 4, True, 2, 2],
             ["link", _i("%"), _i("%"), _i("1"), 15, 5, True, 3, 3], ["link", _i("s"), _i("s"), _i("d"), 8640, 2, False, 1, 1],
             ["link", _i("km"), _i("km"), _i("m"), 3, 5, False, 1, 1], ["link", _i("Hz"), _i("1/s"), _i("s-1"), 3, 3, False, 1, 2],
             ["prepare", _i("m"), _i("km"), 1500, 5, 1], ["prepare", _i("degF"), _i("degC"), -40, 3, 2],
             ["link", _i("mm"), _i("m"), _i("km"), 1500, 4, False, 2, 1], ["link", _i("m"), _i("m"), _i("s"), 3, 0, False, 1, 1]]},
    # seeded/C17_c: a STATIC input must deliver the converted publication on EVERY read (not only the first);
    # timed links read repeatedly next to them; scalar and fixed-mask layouts
    {"ops": [["link", _i("km"), _i("km"), _i("m"), 1.5, 0, True, 3], ["link", None, _i("degC"), _i("K"), 1.5, 0, True, 4],
             ["link", _i("%"), _i("%"), _i("1"), 2.5, 5, True, 3], ["link", _i("mm/d"), _i("mm/d"), _i("m/s"), 86400.0, 2, True, 2],
             ["link", _i("degF"), _i("degF"), _i("degC"), -40.0, 0, True, 3], ["link", _i("hPa"), _i("hPa"), _i("Pa"), 1.0, 4, True, 2],
             ["link", _i("Hz"), _i("1/s"), _i("s-1"), 2.5, 0, True, 3], ["link", _i("m"), _i("m"), _i("s"), 1.0, 0, True, 2],
             ["link", _i("km"), _i("km"), _i("m"), 1.5, 0, False, 3], ["link", _i("mm"), _i("m"), _i("km"), 2.5, 5, False, 2]]},
    # seeded/C17_b: foreign compatible units published as a quantity with a plain magnitude on an output whose
    # Info has a FIXED mask must still be converted (1.5 km on an 'm' output is 1500 m), in every layout
    {"ops": [["link", _i("km"), _i("m"), _i("m"), 1.5, 5], ["prepare", _i("km"), _i("m"), 1.5, 5],
             ["prepare", _i("%"), _i("1"), 1.5, 5], ["prepare", _i("degC"), _i("K"), 1.5, 5],
             ["link", _i("mm/d"), _i("m/s"), _i("km/h"), 86400.0, 5], ["link", _i("m"), _i("s"), _i("s"), 1.5, 5],
             ["link", None, _i("m"), _i("km"), 1.5, 5], ["prepare", _i("Hz"), _i("1/s"), 1.5, 5]]
            + [[o, _i("km"), _i("m")] + r + [lay] for lay in (1, 2, 3, 4) for o, r in (("prepare", [1.5]), ("link", [_i("mm"), 2.5]))]},
    # the pairs of tests/core/test_units.py / tests/data/test_tools.py
    {"ops": [["compat", _i("m"), _i("km")], ["equiv", _i("m"), _i("km")], ["compat", _i("m"), _i("s")],
             ["equiv", _i("mm"), _i("L/s")], ["equiv", _i("m/s"), _i("m s-1")], ["to_units", _i("m"), _i("km"), False, 1.0],
             ["prepare", _i("m"), _i("s"), 1.0]]},
    # same pair asked before / after caching, reversed, across a clear; equivalent but distinct units
    {"ops": [["equiv", _i("m"), _i("m")], ["equiv", _i("m"), _i("km")], ["compat", _i("m"), _i("km")], ["equiv", _i("km"), _i("m")],
             ["clear", 0], ["compat", _i("km"), _i("m")], ["equiv", _i("m"), _i("km")], ["equiv", _i("Hz"), _i("1/s")],
             ["compat", _i("Hz"), _i("s")], ["compat", _i("Hz"), _i("1/s")], ["equiv", _i("Hz"), _i("s-1")],
             ["to_units", _i("Hz"), _i("s-1"), True, 2.5], ["to_units", _i("Hz"), _i("s-1"), False, 2.5]]},
    # offsets
    {"ops": [["equiv", _i("degC"), _i("K")], ["compat", _i("degC"), _i("K")], ["to_units", _i("degC"), _i("K"), True, 1.0],
             ["to_units", _i("K"), _i("degC"), True, 273.15], ["to_units", _i("degF"), _i("degC"), True, -40.0],
             ["prepare", _i("degF"), _i("K"), 100.0], ["link", _i("degF"), _i("degC"), _i("K"), 2.5],
             ["link", _i("degC"), _i("degrees_Celsius"), _i("degC"), 2.5], ["equiv", _i("degK"), _i("kelvin")]]},
    # link: foreign units published, consumer units differ / equivalent / incompatible
    {"ops": [["link", _i("mm"), _i("m"), _i("km"), 2.5], ["link", _i("s"), _i("m"), _i("km"), 2.5],
             ["link", _i("mm"), _i("m"), _i("s"), 2.5], ["link", None, _i("m"), _i("km"), 2.5],
             ["link", _i("Hz"), _i("1/s"), _i("s-1"), 2.5], ["link", _i("Pa"), _i("N/m2"), _i("kg m-1 s-2"), 2.5],
             ["link", _i(""), _i("1"), _i("%"), 2.5], ["link", _i("mm/d"), _i("m/s"), _i("km/h"), 86400.0],
             ["accepts", _i("m"), _i("s")], ["accepts", _i("m"), _i("km")]]},
    # dimensionless family
    {"ops": [["equiv", _i(""), _i("1")], ["equiv", _i("psu"), _i("1")], ["equiv", _i("rad"), _i("")], ["equiv", _i("degree"), _i("rad")],
             ["equiv", _i("degree"), _i("degrees_north")], ["to_units", _i("degrees_east"), _i("degrees_north"), True, 12345.678],
             ["to_units", _i("degree"), _i("percent"), True, 2.5], ["to_units", _i("ppm"), _i("%"), True, 1e6],
             ["same", _i("degree"), _i("degrees_north")], ["same", _i("%"), _i("percent")], ["same", _i(""), _i("dimensionless")]]},
]


def generate(rng, tier):
    cases = list(CORPUS)
    if tier == "quick":
        cases += _sweep_sessions(rng, 130)
        for _ in range(60):
            cases.append(_focus_session(rng, rng.randint(40, 120)))
    else:
        for _ in range(50):
            cases += _sweep_sessions(rng, rng.choice([60, 130, 400]))
        for _ in range(4000):
            cases.append(_focus_session(rng, rng.randint(40, 200)))
    return cases


# ----------------------------------------------------------------------------------------------
# implementation driver (real finam)
# ----------------------------------------------------------------------------------------------
_PINT = None


def _pint_units():
    global _PINT
    if _PINT is None:
        from ..fin import fm
        _PINT = [fm.UNITS.Unit(n) for n in NAMES]
    return _PINT


def _label(u):
    """pint.Unit -> key identity number of the catalogue (SENTINEL if unknown)."""
    for i, p in enumerate(_pint_units()):
        if type(u) is type(p) and u == p and hash(u) == hash(p):
            return CID[i]
    return SENTINEL


def _fr(x):
    import numpy as np
    v = np.asarray(x).reshape(-1)
    if v.size != 1:
        raise ValueError("expected one number")
    return F(float(v[0]))


def _frs(fr):
    return [str(fr.numerator), str(fr.denominator)]


_DOUBLER = None


def _run_chain(fm, np, s_, m, d, x, style):
    """generator [s_] --> (In declared in m) Doubler (Out: info derived from the input) --> consumer [d], run by a
    real Composition; returns (what the Doubler's output held after its last push, what the consumer received)"""
    global _DOUBLER
    from datetime import timedelta
    from ..fin import T
    from finam.components.debug import DebugConsumer
    from finam.components.generators import CallbackGenerator

    t0, day = T(0), timedelta(days=1)
    if _DOUBLER is None:
        class Doubler(fm.TimeComponent):
            """doubles its input; computes with plain magnitudes in the units declared for its input"""

            def __init__(self, units, style):
                super().__init__()
                self.time = t0
                self._units = units
                self._style = style
                self.last = None

            def _next_time(self):
                return self.time + day

            def _initialize(self):
                self.inputs.add(name="In", time=self.time, grid=None, units=self._units)
                self.outputs.add(name="Out")
                rules = {"Out": [fm.tools.FromInput("In")]} if self._style == 1 else None
                self.create_connector(pull_data=["In"], out_info_rules=rules)

            def _connect(self, start_time):
                push_infos, push_data = {}, {}
                in_info = self.connector.in_infos["In"]
                if self._style == 0 and in_info is not None and not self.connector.infos_pushed["Out"]:
                    push_infos["Out"] = in_info.copy_with()
                in_data = self.connector.in_data["In"]
                if in_data is not None and not self.connector.data_pushed["Out"]:
                    push_data["Out"] = 2.0 * fm.data.get_magnitude(in_data)
                self.try_connect(start_time, push_infos=push_infos, push_data=push_data)

            def _validate(self):
                pass

            def _update(self):
                self.time += day
                data = self.inputs["In"].pull_data(self.time)
                self.outputs["Out"].push_data(2.0 * fm.data.get_magnitude(data), self.time)
                self.last = self.outputs["Out"].data[-1][1]

            def _finalize(self):
                pass

        _DOUBLER = Doubler
    src = CallbackGenerator(
        callbacks={"Out": (lambda t: np.asarray(x, dtype=float), fm.Info(time=t0, grid=fm.NoGrid(), units=s_))},
        start=t0, step=day)
    mid = _DOUBLER(m, style)
    sink = DebugConsumer(inputs={"In": fm.Info(time=None, grid=None, units=d)}, start=t0, step=day)
    comp = fm.Composition([src, mid, sink], log_level="CRITICAL")
    src.outputs["Out"] >> mid.inputs["In"]
    mid.outputs["Out"] >> sink.inputs["In"]
    comp.run(start_time=t0, end_time=t0 + day)
    return mid.last, sink.data["In"]


_RELAYS = None


def _run_relay(fm, np, s_, m, o, d, x, style):
    """generator [s_] --> relaying component (RELAY_STYLES[style]; In m, Out o) --> consumer [d], run by a real
    Composition for one time step; returns (what the component's output held after its last push, what the
    consumer received)"""
    global _RELAYS
    from datetime import timedelta
    from ..fin import T
    from finam.components.debug import DebugConsumer
    from finam.components.generators import CallbackGenerator
    from finam.tools.connect_helper import FromInput, FromOutput, FromValue

    t0, day = T(0), timedelta(days=1)
    if _RELAYS is None:
        class Trigger(fm.components.TimeTrigger):
            """finam's TimeTrigger; only remembers what its output holds after each step"""
            last = None

            def _update(self):
                super()._update()
                self.last = self.outputs["Out"].data[-1][1]

        class RuleComp(fm.TimeComponent):
            """doubles the magnitudes of its input; one slot's info is derived from the other by rules"""

            def __init__(self, m_, o_, from_out, bare):
                super().__init__()
                self.time = t0
                self.m_, self.o_, self.from_out, self.bare = m_, o_, from_out, bare
                self.last = None

            def _next_time(self):
                return self.time + day

            def _initialize(self):
                if self.from_out:
                    self.inputs.add(name="In")
                    self.outputs.add(name="Out", time=self.time, grid=fm.NoGrid(), units=self.o_)
                    self.create_connector(
                        pull_data=["In"], in_info_rules={"In": [FromOutput("Out"), FromValue("units", self.m_)]})
                else:
                    self.inputs.add(name="In", time=self.time, grid=None, units=self.m_)
                    self.outputs.add(name="Out")
                    self.create_connector(
                        pull_data=["In"], out_info_rules={"Out": [FromInput("In"), FromValue("units", self.o_)]})

            def _work(self, data):
                v = 2.0 * fm.data.get_magnitude(data)
                return v if self.bare else fm.UNITS.Quantity(v, self.m_)

            def _connect(self, start_time):
                push = {}
                data = self.connector.in_data["In"]
                if data is not None and not self.connector.data_pushed["Out"]:
                    push["Out"] = self._work(data)
                self.try_connect(start_time, push_data=push)

            def _validate(self):
                pass

            def _update(self):
                self.time += day
                self.outputs["Out"].push_data(self._work(self.inputs["In"].pull_data(self.time)), self.time)
                self.last = self.outputs["Out"].data[-1][1]

            def _finalize(self):
                pass

        _RELAYS = (Trigger, RuleComp)
    Trigger, RuleComp = _RELAYS
    src = CallbackGenerator(
        callbacks={"Out": (lambda t: np.asarray(x, dtype=float), fm.Info(time=t0, grid=fm.NoGrid(), units=s_))},
        start=t0, step=day)
    if style in (0, 1):
        um, uo = (m, o) if style == 0 else (None, None)
        mid = Trigger(start=t0, step=day, in_info=fm.Info(time=None, grid=None, units=um),
                      out_info=fm.Info(time=None, grid=None, units=uo))
    else:
        mid = RuleComp(m, o, style in (4, 5), style in (3, 5))
    sink = DebugConsumer(inputs={"In": fm.Info(time=None, grid=fm.NoGrid(), units=d)}, start=t0, step=day)
    comp = fm.Composition([src, mid, sink], log_level="CRITICAL")
    src.outputs["Out"] >> mid.inputs["In"]
    mid.outputs["Out"] >> sink.inputs["In"]
    comp.run(start_time=t0, end_time=t0 + day)
    return mid.last, sink.data["In"]


_RELABEL = None


def _relabel_adapter(fm):
    """SDK adapter that changes the units: asks upstream without units, delivers the same numbers labelled `units`"""
    global _RELABEL
    if _RELABEL is None:
        class Relabel(fm.Adapter):
            def __init__(self, units):
                super().__init__()
                self.units = fm.UNITS.Unit(units)

            def _get_data(self, time, target):
                return fm.UNITS.Quantity(self.pull_data(time, target).magnitude, self.units)

            def _get_info(self, info):
                in_info = self.exchange_info(info.copy_with(units=None))
                return in_info.copy_with(units=self.units)

        _RELABEL = Relabel
    return _RELABEL


def _layout(fm, np, vals, lay, dt=0):
    """(grid, mask of the Info, payload array) of a layout and payload dtype"""
    dtype = np.dtype(DTYPES[dt])
    if lay == 0:
        return fm.NoGrid(), fm.Mask.FLEX, np.array(vals[0], dtype=dtype)
    m = np.array(MASK).reshape(2, 2)
    mask = {1: fm.Mask.NONE, 2: fm.Mask.FLEX, 3: fm.Mask.FLEX, 4: m, 5: m}[lay]
    arr = np.array(vals, dtype=float).astype(dtype).reshape(2, 2)
    if lay in (3, 4):
        arr = np.ma.array(arr, mask=m, shrink=False)
    return fm.UniformGrid((3, 3)), mask, arr


def _cellvals(np, mag, lay):
    """exact cell values (Fractions, row-major) of a prepared magnitude (leading time axis of length 1)"""
    v = np.ma.getdata(mag)
    v = np.asarray(v, dtype=float).reshape(-1)
    if v.size != (1 if lay == 0 else 4):
        raise ValueError("unexpected data size")
    return [F(float(t)) for t in v]


def run_impl(case):
    import numpy as np
    from ..fin import fm, T, err_class
    from finam.data.tools import units as U

    tools = fm.data.tools
    Qn = fm.UNITS.Quantity
    t0 = T(0)
    U._UNIT_PAIRS_CACHE.clear()  # every case starts from an empty memo (workers are reused)
    res = []
    for op in case["ops"]:
        k = op[0]
        try:
            if k == "clear":
                if op[1] == 0:
                    tools.clear_units_cache()
                else:
                    U._UNIT_PAIRS_CACHE.clear()
                res.append(["unit"])
            elif k == "compat":
                r = tools.compatible_units(NAMES[op[1]], NAMES[op[2]])
                res.append(["bool", bool(r)])
            elif k == "equiv":
                r = tools.equivalent_units(NAMES[op[1]], NAMES[op[2]])
                res.append(["bool", bool(r)])
            elif k == "same":
                a, b = fm.UNITS.Unit(NAMES[op[1]]), fm.UNITS.Unit(NAMES[op[2]])
                res.append(["bool", bool(a == b) and (hash(a) == hash(b)) == bool(a == b)])
            elif k == "accepts":
                a = fm.Info(time=t0, grid=fm.NoGrid(), units=NAMES[op[1]])
                b = fm.Info(time=t0, grid=fm.NoGrid(), units=NAMES[op[2]])
                fail = {}
                r = a.accepts(b, fail)
                if r and not fail:
                    res.append(["bool", True])
                elif not r and list(fail) == ["units"]:
                    res.append(["bool", False])
                else:
                    res.append(["err", "accepts-other"])
            elif k == "to_units":
                vals, _ = _cells(op[4], 0, _dt(op))
                d = Qn(_layout(fm, np, vals, 0, _dt(op))[2], fm.UNITS.Unit(NAMES[op[1]]))
                r, cv = tools.to_units(d, NAMES[op[2]], check_equivalent=op[3], report_conversion=True)
                if cv is not None and (_label(cv[0]), _label(cv[1])) != (CID[op[1]], CID[op[2]]):
                    res.append(["err", "bad-conversion-report"])
                else:
                    res.append(["val", _label(r.units), cv is not None, _frs(_fr(r.magnitude))])
            elif k == "prepare":
                lay = _lay(op)
                vals, judged = _cells(op[3], lay, _dt(op))
                grid, mask, arr = _layout(fm, np, vals, lay, _dt(op))
                d = Qn(arr, fm.UNITS.Unit(NAMES[op[1]]))
                info = fm.Info(time=t0, grid=grid, units=NAMES[op[2]], mask=mask)
                r, cv = tools.prepare(d, info, report_conversion=True)
                if cv is not None and (_label(cv[0]), _label(cv[1])) != (CID[op[1]], CID[op[2]]):
                    res.append(["err", "bad-conversion-report"])
                else:
                    cells = _cellvals(np, r.magnitude, lay)
                    per = [["val", _label(r.units), cv is not None, _frs(cells[i])] for i in judged]
                    res.append(per[0] if lay == 0 else ["multi", per])
            elif k == "link":
                kk, a, b, x = op[1], op[2], op[3], op[4]
                lay = _lay(op)
                vals, judged = _cells(x, lay, _dt(op))
                grid, mask, arr = _layout(fm, np, vals, lay, _dt(op))
                static, reads = _mode(op)
                tt = None if static else t0
                out = fm.Output(name="Out", static=static)
                inp = fm.Input(name="In", static=static)
                out >> inp
                inp.ping()
                out.push_info(fm.Info(time=tt, grid=grid, units=NAMES[a], mask=mask))
                inp.exchange_info(fm.Info(time=tt, grid=grid, units=NAMES[b]))
                d = arr if kk is None else Qn(arr, fm.UNITS.Unit(NAMES[kk]))
                out.push_data(d, tt)
                st = out.data[-1][1]
                cs = _cellvals(np, st.magnitude, lay)
                per = []
                for _ in range(reads):  # every read must deliver the converted publication
                    got = inp.pull_data(t0)
                    cg = _cellvals(np, got.magnitude, lay)
                    per += [["link", _label(st.units), _frs(cs[i]), _label(got.units), _frs(cg[i])] for i in judged]
                res.append(per[0] if len(per) == 1 and lay == 0 and reads == 1 else ["multi", per])
            elif k == "alink":
                kk, a, d, b, x = op[1], op[2], op[3], op[4], op[5]
                out = fm.Output(name="Out")
                inp = fm.Input(name="In")
                out >> _relabel_adapter(fm)(NAMES[d]) >> inp
                inp.ping()
                out.push_info(fm.Info(time=t0, grid=fm.NoGrid(), units=NAMES[a]))
                inp.exchange_info(fm.Info(time=t0, grid=fm.NoGrid(), units=NAMES[b]))
                out.push_data(np.array(x) if kk is None else Qn(np.array(x), fm.UNITS.Unit(NAMES[kk])), t0)
                st = out.data[-1][1]
                got = inp.pull_data(t0)
                res.append(["link", _label(st.units), _frs(_fr(st.magnitude)), _label(got.units), _frs(_fr(got.magnitude))])
            elif k == "fill":
                f, a, b, x, tmpl = op[1], op[2], op[3], op[4], (op[5] if len(op) > 5 else 0)
                # a component resets its state (declared in a) with a fill value in foreign units ...
                template = [np.zeros(()), np.array(7.0), np.full((), -1.0)][tmpl]  # float templates only
                state = tools.full_like(Qn(template, fm.UNITS.Unit(NAMES[a])), Qn(x, fm.UNITS.Unit(NAMES[f])))
                # ... and publishes it
                out = fm.Output(name="Out")
                inp = fm.Input(name="In")
                out >> inp
                inp.ping()
                out.push_info(fm.Info(time=t0, grid=fm.NoGrid(), units=NAMES[a]))
                inp.exchange_info(fm.Info(time=t0, grid=fm.NoGrid(), units=NAMES[b]))
                out.push_data(state, t0)
                st = out.data[-1][1]
                got = inp.pull_data(t0)
                res.append(["link", _label(st.units), _frs(_fr(st.magnitude)), _label(got.units), _frs(_fr(got.magnitude))])
            elif k == "chain":
                st, got = _run_chain(fm, np, NAMES[op[1]], NAMES[op[2]], NAMES[op[3]], op[4], op[5] if len(op) > 5 else 0)
                res.append(["link", _label(st.units), _frs(_fr(st.magnitude)), _label(got.units), _frs(_fr(got.magnitude))])
            elif k == "relay":
                st, got = _run_relay(fm, np, NAMES[op[1]], NAMES[op[2]], NAMES[op[3]], NAMES[op[4]], op[5], op[6])
                res.append(["link", _label(st.units), _frs(_fr(st.magnitude)), _label(got.units), _frs(_fr(got.magnitude))])
            elif k == "adapt":
                _, kind, a, b = op
                out = fm.Output(name="Out")
                inp = fm.Input(name="In")
                if kind == "sum":
                    out >> fm.adapters.SumOverTime(per_time=True) >> inp
                    gout, gin = fm.NoGrid(), fm.NoGrid()
                else:
                    out >> fm.adapters.Histogram(lower=0.0, upper=3.0, bins=3) >> inp
                    gout, gin = fm.UniformGrid((3, 3)), None
                inp.ping()
                out.push_info(fm.Info(time=t0, grid=gout, units=NAMES[a]))
                try:
                    inp.exchange_info(fm.Info(time=t0, grid=gin, units=NAMES[b]))
                    res.append(["bool", True])
                except fm.FinamMetaDataError:
                    res.append(["bool", False])
            else:
                raise ValueError(k)
        except Exception as e:  # noqa  (also a unit name pint cannot parse: an answer the model cannot give)
            res.append(["err", err_class(e)])
    return {"res": res}


# ----------------------------------------------------------------------------------------------
# Gallina emitter
# ----------------------------------------------------------------------------------------------
def _U(i):
    return C("U", N(i))


def _coq_op(op):
    k = op[0]
    if k == "clear":
        return "Clear"
    if k == "compat":
        return C("Compat", _U(op[1]), _U(op[2]))
    if k == "equiv":
        return C("Equiv", _U(op[1]), _U(op[2]))
    if k == "same":
        return C("Same", _U(op[1]), _U(op[2]))
    if k == "accepts":
        return C("Accepts", _U(op[1]), _U(op[2]))
    if k == "accsum":  # the unit SumOverTime delivers for source a: dimension of a * s (fresh identity 1000 + cid a)
        a = op[2]
        d = "[" + ";".join(str(e) for e in _sum_dims(a)) + "]%Z"
        return C("Accepts", _U(op[1]), C("mkE", N(1000 + CID[a]), C("mkU", d, Q(FAC[a]), Q(0))))
    if k == "fill":
        return C("Fill", _U(op[1]), _U(op[2]), _U(op[3]), Q(F(op[4])))
    if k == "relay_s":
        return C("Relay", _U(op[1]), _U(op[2]), _U(op[3]), _U(op[4]), B(op[5]), Q(F(op[6])), Q(F(op[7])))
    if k == "chain":
        return C("Chain", _U(op[1]), _U(op[2]), _U(op[3]), Q(F(op[4])))
    if k == "alink":
        return C("ALink", NONE if op[1] is None else Some(_U(op[1])), _U(op[2]), _U(op[3]), _U(op[4]), Q(F(op[5])))
    if k == "to_units":
        return C("ToUnits", _U(op[1]), _U(op[2]), B(op[3]), Q(F(op[4])))
    if k == "prepare":
        return C("Prepare", _U(op[1]), _U(op[2]), Q(F(op[3])))
    if k == "link":
        return C("Link", NONE if op[1] is None else Some(_U(op[1])), _U(op[2]), _U(op[3]), Q(F(op[4])))
    raise ValueError(k)


_ERR = {"DataError": "ErrData", "MetaDataError": "ErrMeta", "DimensionalityError": "ErrDim"}


def _lab(n):
    return N(n if 0 <= n < 5000 else SENTINEL)


def _coq_res(r):
    k = r[0]
    if k == "unit":
        return "RUnit"
    if k == "bool":
        return C("RBool", B(r[1]))
    if k == "val":
        return C("RVal", _lab(r[1]), B(r[2]), Q(F(int(r[3][0]), int(r[3][1]))))
    if k == "link":
        return C("RLink", _lab(r[1]), "false", Q(F(int(r[2][0]), int(r[2][1]))), _lab(r[3]), "false", Q(F(int(r[4][0]), int(r[4][1]))))
    if k == "err":
        return C("RErr", _ERR.get(r[1], "ErrOther"))
    raise ValueError(k)


def coq_case(case, obs):
    return L(_coq_op(sop) for op in case["ops"] for sop in expand(op))


def coq_obs(case, obs):
    if "res" not in obs or len(obs["res"]) != len(case["ops"]):
        return L([])  # harness error: no answers -> mismatch
    return L(_coq_res(r) for op, got in zip(case["ops"], obs["res"]) for r in answers(op, got))


# ----------------------------------------------------------------------------------------------
# monitor: every answer equals pure dimensional analysis (no dependence on the query history)
# ----------------------------------------------------------------------------------------------
def _close(model, got, sl):
    return abs(model - got) <= EPS * sl


def _cmp(op, exp, got):
    if exp[0] != got[0]:
        return f"{op}: expected {exp[:2]} by dimensional analysis, implementation gave {got[:2]}"
    k = exp[0]
    if k == "unit":
        return None
    if k in ("bool", "err"):
        if exp[1] != got[1]:
            return f"{op}: expected {exp[1]} by dimensional analysis, implementation gave {got[1]}"
        return None
    if k == "val":
        _, lab, cv, x, sl = exp
        g = F(int(got[3][0]), int(got[3][1]))
        if lab != got[1]:
            return f"{op}: result labelled with unit #{got[1]} ({_keyname(got[1])}), expected #{lab} ({_keyname(lab)})"
        if cv != got[2]:
            return f"{op}: conversion reported = {got[2]}, expected {cv}"
        if (not cv and g != x) or (cv and not _close(x, g, sl)):
            return f"{op}: value {float(g)!r}, dimensional analysis gives {float(x)!r} ({'converted' if cv else 'relabelled: must be unchanged'})"
        return None
    if k == "link":
        _, l1, c1, x1, s1, l2, c2, x2, s2 = exp
        g1 = F(int(got[2][0]), int(got[2][1]))
        g2 = F(int(got[4][0]), int(got[4][1]))
        if l1 != got[1] or l2 != got[3]:
            return f"{op}: labels stored/received #{got[1]}/#{got[3]}, expected #{l1}/#{l2}"
        if (not c1 and g1 != x1) or (c1 and not _close(x1, g1, s1)):
            return f"{op}: stored value {float(g1)!r}, dimensional analysis gives {float(x1)!r}"
        if (not c2 and g2 != x2) or (c2 and not _close(x2, g2, s2)):
            return f"{op}: received value {float(g2)!r}, dimensional analysis gives {float(x2)!r}"
        return None
    return f"{op}: unknown result kind"


def _keyname(c):
    return _KEYS[c] if 0 <= c < len(_KEYS) else "not in the catalogue"


def _show(op):
    o = list(op)
    k = o[0]
    if k == "clear":
        return "clear"
    idx = {"compat": (1, 2), "equiv": (1, 2), "same": (1, 2), "accepts": (1, 2), "to_units": (1, 2), "prepare": (1, 2), "link": (1, 2, 3),
           "alink": (1, 2, 3, 4), "adapt": (2, 3), "accsum": (1, 2), "fill": (1, 2, 3), "chain": (1, 2, 3),
           "relay": (1, 2, 3, 4), "relay_s": (1, 2, 3, 4)}[k]
    for p in idx:
        o[p] = None if o[p] is None else NAMES[o[p]]
    return o


def monitor(case, obs):
    ops, res = case["ops"], obs["res"]
    if len(ops) != len(res):
        return "driver returned a different number of answers"
    for n, (op, got) in enumerate(zip(ops, res)):
        sops, gots = expand(op), answers(op, got)
        if len(sops) != len(gots):
            return f"op {n}: {_show(op)}: {len(gots)} cell answers, expected {len(sops)}"
        st, reads = _mode(op)
        for q, (sop, g) in enumerate(zip(sops, gots)):
            f = _cmp(_show(sop), pure(sop), g)
            if f:
                where = RELAY_STYLES[op[6]] if op[0] == "relay" else LAYOUTS[_lay(op)]
                if op[0] == "link":
                    where += f", {'static' if st else 'timed'} link, read {q // max(1, len(sops) // reads) + 1} of {reads}"
                return f"op {n} [{where}]: {f}"
    return None


def _pairs(op):
    k = op[0]
    if k == "clear":
        return []
    if k == "link":
        return [(op[2], op[3])] + ([(op[1], op[2])] if op[1] is not None else [])
    if k == "alink":
        return [(op[4], op[3])] + ([(op[1], op[2])] if op[1] is not None else [])
    if k == "adapt":
        return [(op[2], op[3])]
    if k in ("fill", "chain"):
        return [(op[1], op[2]), (op[2], op[3])]
    if k == "relay":
        return [(op[1], op[2]), (op[2], op[3]), (op[3], op[4])]
    return [(op[1], op[2])]


def nontrivial(case, obs):
    seen = set()
    rep = clr = cne = eni = inc = False
    for op in case["ops"]:
        if op[0] == "clear":
            clr = True
            seen = set()
            continue
        if op[0] == "same":
            continue
        for (i, j) in _pairs(op):
            key = (CID[i], CID[j])
            rep |= key in seen
            seen.add(key)
            c, e = compat(i, j), equiv(i, j)
            cne |= c and not e
            eni |= e and CID[i] != CID[j]
            inc |= not c
    return rep and clr and cne and eni and inc


def distribution(cases, obss):
    from collections import Counter

    kinds = Counter(op[0] for c in cases for op in c["ops"])
    outcome = Counter()
    pairs = set()
    for c, o in zip(cases, obss):
        if "res" not in o:
            continue
        for op, r in zip(c["ops"], o["res"]):
            for r1 in answers(op, r):
                outcome[r1[0] if r1[0] != "err" else "err:" + r1[1]] += 1
            for p in _pairs(op):
                pairs.add(p)
    cls = Counter()
    for (i, j) in pairs:
        cls["identical" if CID[i] == CID[j] else "equivalent" if equiv(i, j) else "compatible" if compat(i, j) else "incompatible"] += 1
    reads = Counter(("static" if _mode(op)[0] else "timed") + f" x{_mode(op)[1]}" for c in cases for op in c["ops"] if op[0] == "link")
    dts = Counter(DTYPES[_dt(op)] for c in cases for op in c["ops"] if op[0] in ("to_units", "prepare", "link"))
    lays = Counter(LAYOUTS[_lay(op)] for c in cases for op in c["ops"] if op[0] in ("prepare", "link"))
    return {"op_kinds": dict(kinds), "answers": dict(outcome), "prepare_link_layouts": dict(lays), "link_reads": dict(reads), "payload_dtypes": dict(dts), "ordered_name_pairs_covered": len(pairs),
            "ordered_name_pairs_total": NCAT * NCAT, "pair_classes_covered": dict(cls),
            "session_length_bucket": dict(Counter(min(len(c["ops"]) // 50 * 50, 400) for c in cases))}


def shrink_candidates(case):
    ops = case["ops"]
    n = len(ops)
    # halves first (sessions are long), then single removals
    if n > 8:
        yield {"ops": ops[n // 2:]}
        yield {"ops": ops[:n // 2]}
    for i in range(n - 1, -1, -1):
        yield {"ops": ops[:i] + ops[i + 1:]}


# ----------------------------------------------------------------------------------------------
# `python -m harness.props.c17` prints the Coq text of the catalogue (pasted into Units.v)
# ----------------------------------------------------------------------------------------------
def coq_catalogue():
    lines = []
    for (name, key, dims, f, o), cid in zip(CATALOGUE, CID):
        d = "[" + ";".join(str(e) for e in dims) + "]"
        lines.append(f"  mkE {cid:2d} (mkU {d}%Z ({f.numerator}#{f.denominator}) ({o.numerator}#{o.denominator}))"
                     f"  (* {len(lines):2d} \"{name}\" = {key} *)")
    return "Definition catalogue : list uent := [\n" + ";\n".join(lines) + "\n]."


if __name__ == "__main__":
    print(coq_catalogue())
