"""C07 — after connect both ends of every link agree on metadata; conflicts are rejected.

Correspondence: one producer output, 1-3 consumers, each behind 0-2 adapters (Scale, AvgOverTime,
SumOverTime, RegridNearest), all combinations of set/unset time / grid / units / mask / two extra meta
keys on both sides.  The REAL finam is driven (a) through bare Output / Adapter / Input objects
(push_info, exchange_info in a chosen consumer order, optionally with an exchange attempt before the
producer's info exists) and (b) through fm.Composition([...]).connect() with harness components in a
chosen listing order.  The order in which the consumers' exchanges actually happened is recorded at the
API boundary (Input.exchange_info); the Coq model Info.run_all is evaluated on the same producer info
and the consumers in that order and must give the same outcome class, the same canonicalised
input.info of every consumer, the same output.info, the same number of successful exchanges and the
same state of the data gate.
"""
import itertools
from datetime import timedelta
from collections import Counter
from fractions import Fraction

import numpy as np

from ..coqgen import B, C, L, N, NONE, P, Q, Some, Z
from ..fin import fm, T, us_of, err_class

ID = "C07"
TITLE = "After connect both ends of every link agree on metadata; conflicts are rejected"
COQ_IMPORTS = "From FV Require Import Base Info."
COQ_CHECK = "c07_check"
COQ_MODEL_OBS = "c07_model"
CASE_TIMEOUT = 30
RULE = (
    "sampled product over set/unset time, grid, units, mask, two extra meta keys on producer and consumers x grid "
    "kinds (NoGrid with dims/shapes, uniform/rectilinear layouts compatible-but-different vs incompatible, points vs "
    "cells, equal-shape structured grids whose axes differ along exactly one / every direction (shift, spacing; 2-d and 3-d), identical numbers in different coordinate reference systems (custom without EPSG code, registered, none), an unstructured mesh with as many cells as nodes (equal data shape, only the location differs), 1-d, unstructured) x unit pairs (equal, convertible, incompatible, unset) x mask kinds (FLEX, NONE, nomask, "
    "unset, explicit equal / equal-after-layout / different / all-false / wrong shape; also ONE array object shared by "
    "both ends on equal / different layouts, symmetric or not under the layout change) x fan-out 1-3 in every consumer "
    "order x adapter chains of length 0-2 from Scale, AvgOverTime, SumOverTime(per_time or not), RegridNearest(in/out "
    "grid, out mask given or not), run through bare Output/Adapter/Input objects (incl. an exchange before push_info) "
    "and through Composition.connect() with harness components in every listing position of the producer; plus "
    "two-link compositions of real components with a ConnectHelper (producer declaring its info or passing a fresh "
    "Info via push_infos in every _connect call; a relay component whose in/out info is composed by a complete "
    "FromInput/FromOutput transfer rule followed by FromValue overrides; direct and late consumers with agreeing / "
    "conflicting requirements; all listing orders), every link checked on Input.info vs the source end's info; "
    "non-trivial = both sides have at least one unset field, or the outcome is a refusal; distinct by canonical case hash"
)
TRUSTED = [
    "instance-level wrappers: Input.exchange_info records the order of the exchanges (Composition mode), "
    "Output.get_info counts the exchanges the output answered",
    "grid geometry ids / layouts and the unit table (dimension vector, factor) are hand-written in harness/props/c07.py "
    "and asserted against the public attributes of the constructed finam grids at import",
    "SumOverTime: pint's (units*s).to_reduced_units() enters the model as a finite table (oracle)",
]
ASSUMPTIONS = [
    "the CRS is part of a grid's geometry id (grids whose CRS values differ are different geometries, as finam's == on the "
    "stored CRS value decides); grids with a CRS never meet a regridding adapter (its CRS checks / transformer are not modelled)",
    "one output, fan-out at the output only (an adapter has exactly one target)",
    "explicit masks are 1-d or 2-d",
    "the first failing exchange aborts (as connect() does); partially filled producer info after a failure is not observed",
]

# ----------------------------------------------------------------------------------------------
# catalogues (hand-written, independent of finam's compatible_with / pint)
# ----------------------------------------------------------------------------------------------
_TRI = None


# coordinate reference systems: two project-specific (regional LAEA, no EPSG code) and two registered ones.
# The CRS is part of a grid's geometry: the same numbers in another CRS are other places on the globe.
_LAEA_A = "+proj=laea +lat_0=46 +lon_0=10 +x_0=0 +y_0=0 +ellps=GRS80 +units=m +no_defs"
_LAEA_B = "+proj=laea +lat_0=58 +lon_0=20 +x_0=0 +y_0=0 +ellps=GRS80 +units=m +no_defs"
CRS_OF = {"U43A": _LAEA_A, "U43Af": _LAEA_A, "U43B": _LAEA_B, "U43E": "EPSG:32632", "U43E2": "EPSG:32633",
          "T43A": _LAEA_A, "T43B": _LAEA_B}


# grids with the data shape of U43 (resp. U432) whose axes differ from it along exactly ONE axis (shift or
# spacing); U43s differs along both
AXIS_VARIANTS = {
    "U43x": {"dims": (4, 3), "origin": (10.0, 0.0)}, "U43y": {"dims": (4, 3), "origin": (0.0, 10.0)},
    "U43sx": {"dims": (4, 3), "spacing": (2.0, 1.0)}, "U43sy": {"dims": (4, 3), "spacing": (1.0, 2.0)},
    "R43y": {},
    "U432": {"dims": (4, 3, 2)}, "U432z": {"dims": (4, 3, 2), "origin": (0.0, 0.0, 5.0)},
    "U432xy": {"dims": (4, 3, 2), "origin": (3.0, 4.0, 0.0)},
}


def _grid_ctor(name):
    UG = fm.UniformGrid
    if name == "N0":
        return fm.NoGrid()
    if name == "N1":
        return fm.NoGrid(1)
    if name == "N3":
        return fm.NoGrid(data_shape=(3,))
    if name == "U43":
        return UG((4, 3))
    if name == "U43f":
        return UG((4, 3), axes_increase=[True, False])
    if name == "U43r":
        return UG((4, 3), axes_reversed=True)
    if name == "U43rf":
        return UG((4, 3), axes_reversed=True, axes_increase=[False, True])
    if name == "R43":
        return fm.RectilinearGrid(axes=[np.array([0.0, 1.0, 2.0, 3.0]), np.array([0.0, 1.0, 2.0])])
    if name == "U43p":
        return UG((4, 3), data_location=fm.Location.POINTS)
    if name == "U53":
        return UG((5, 3))
    if name == "U43s":
        return UG((4, 3), origin=(10.0, 10.0))
    if name in AXIS_VARIANTS:
        kw = AXIS_VARIANTS[name]
        if name == "R43y":
            return fm.RectilinearGrid(axes=[np.array([0.0, 1.0, 2.0, 3.0]), np.array([0.0, 1.0, 3.0])])
        return UG(kw["dims"], **{k: v for k, v in kw.items() if k != "dims"})
    if name in CRS_OF and name.startswith("U43"):
        if name == "U43Af":
            return UG((4, 3), axes_increase=[True, False], crs=CRS_OF[name])
        return UG((4, 3), crs=CRS_OF[name])
    if name == "U4":
        return UG((4,))
    if name == "U4f":
        return UG((4,), axes_increase=[False])
    if name == "X":
        return fm.UnstructuredGrid(points=[[0, 0], [1, 0], [0, 1], [1, 1]], cells=[[0, 1, 2], [1, 3, 2]],
                                   cell_types=[fm.CellType.TRI] * 2)
    if name == "X2":
        return fm.UnstructuredGrid(points=[[0, 0], [2, 0], [0, 2], [2, 2]], cells=[[0, 1, 2], [1, 3, 2]],
                                   cell_types=[fm.CellType.TRI] * 2)
    if name in ("T43c", "T43p", "T43A", "T43B"):
        # 4x3 nodes, every quad split into two triangles: 12 nodes AND 12 cells, so data on cells and data on
        # nodes have the same shape; only the data location tells the two grids apart
        nx, ny = 4, 3
        pts = [[float(i), float(j)] for i in range(nx) for j in range(ny)]
        cells = []
        for i in range(nx - 1):
            for j in range(ny - 1):
                a, b, c, d = i * ny + j, (i + 1) * ny + j, (i + 1) * ny + j + 1, i * ny + j + 1
                cells += [[a, b, c], [a, c, d]]
        return fm.UnstructuredGrid(points=pts, cells=cells, cell_types=[fm.CellType.TRI] * len(cells),
                                   data_location=fm.Location.POINTS if name == "T43p" else fm.Location.CELLS,
                                   **({"crs": CRS_OF[name]} if name in CRS_OF else {}))
    if name == "Xp":
        return fm.UnstructuredGrid(points=[[0, 0], [1, 0], [0, 1], [1, 1]], cells=[[0, 1, 2], [1, 3, 2]],
                                   cell_types=[fm.CellType.TRI] * 2, data_location=fm.Location.POINTS)
    raise KeyError(name)


def _g(kind, geom, loc, dim, rev, inc, shape):
    return {"kind": kind, "geom": geom, "loc": loc, "dim": dim, "rev": rev, "inc": inc, "shape": shape}


GSPEC = {
    "N0": _g(0, 1, 0, 0, False, [], []),
    "N1": _g(0, 2, 0, 1, False, [], [-1]),
    "N3": _g(0, 3, 0, 1, False, [], [3]),
    "U43": _g(1, 10, 0, 2, False, [True, True], [3, 2]),
    "U43f": _g(1, 10, 0, 2, False, [True, False], [3, 2]),
    "U43r": _g(1, 10, 0, 2, True, [True, True], [2, 3]),
    "U43rf": _g(1, 10, 0, 2, True, [False, True], [2, 3]),
    "R43": _g(1, 10, 0, 2, False, [True, True], [3, 2]),
    "U43p": _g(1, 10, 1, 2, False, [True, True], [4, 3]),
    "U53": _g(1, 11, 0, 2, False, [True, True], [4, 2]),
    "U43s": _g(1, 13, 0, 2, False, [True, True], [3, 2]),
    "U43x": _g(1, 18, 0, 2, False, [True, True], [3, 2]),
    "U43y": _g(1, 19, 0, 2, False, [True, True], [3, 2]),
    "U43sx": _g(1, 25, 0, 2, False, [True, True], [3, 2]),
    "U43sy": _g(1, 26, 0, 2, False, [True, True], [3, 2]),
    "R43y": _g(1, 27, 0, 2, False, [True, True], [3, 2]),
    "U432": _g(1, 30, 0, 3, False, [True, True, True], [3, 2, 1]),
    "U432z": _g(1, 31, 0, 3, False, [True, True, True], [3, 2, 1]),
    "U432xy": _g(1, 32, 0, 3, False, [True, True, True], [3, 2, 1]),
    "U43A": _g(1, 14, 0, 2, False, [True, True], [3, 2]),
    "U43Af": _g(1, 14, 0, 2, False, [True, False], [3, 2]),
    "U43B": _g(1, 15, 0, 2, False, [True, True], [3, 2]),
    "U43E": _g(1, 16, 0, 2, False, [True, True], [3, 2]),
    "U43E2": _g(1, 17, 0, 2, False, [True, True], [3, 2]),
    "T43A": _g(2, 23, 0, 2, False, [], [12]),
    "T43B": _g(2, 24, 0, 2, False, [], [12]),
    "U4": _g(1, 12, 0, 1, False, [True], [3]),
    "U4f": _g(1, 12, 0, 1, False, [False], [3]),
    "X": _g(2, 20, 0, 2, False, [], [2]),
    "X2": _g(2, 21, 0, 2, False, [], [2]),
    "Xp": _g(2, 20, 1, 2, False, [], [4]),
    "T43c": _g(2, 22, 0, 2, False, [], [12]),
    "T43p": _g(2, 22, 1, 2, False, [], [12]),
}
# pairs that describe the same mesh and differ ONLY in the data location (T43: even the data shape is equal)
# pairs with identical geometry numbers that differ ONLY in the CRS (incl. CRS on one end, none on the other)
CRS_PAIRS = [(a, b) for a in ("U43", "U43A", "U43B", "U43E", "U43E2") for b in ("U43", "U43A", "U43B", "U43E", "U43E2") if a != b] + [
    ("T43c", "T43A"), ("T43A", "T43c"), ("T43A", "T43B"), ("T43B", "T43A")]
CRS_SAME = [("U43A", "U43A"), ("U43A", "U43Af"), ("U43Af", "U43A"), ("U43E", "U43E"), ("T43B", "T43B")]
# same kind / dim / CRS / location / data shape; the axes agree along some but not all directions (or along none)
AXIS_PAIRS = [(a, b) for a in ("U43", "U43x", "U43y", "U43sx", "U43sy", "U43s", "R43y", "R43", "U43f")
              for b in ("U43", "U43x", "U43y", "U43sx", "U43sy", "U43s", "R43y")
              if a != b and not (a in ("U43", "R43", "U43f") and b == "U43")] + [
    ("U432", "U432z"), ("U432z", "U432"), ("U432", "U432xy"), ("U432xy", "U432z"), ("U432", "U432")]
LOCATION_PAIRS = [("T43c", "T43p"), ("T43p", "T43c"), ("X", "Xp"), ("Xp", "X"), ("U43", "U43p"), ("U43p", "U43")]
REAL_GRIDS = ["U43", "U43f", "U43r", "U43rf", "R43", "U43p", "U53", "U4", "U4f", "X", "X2", "Xp", "T43c", "T43p", "U43s",
              "U43x", "U43y", "U43sx", "U43sy", "R43y", "U432", "U432z", "U432xy"]  # have .crs
SAME_GEOM = {
    "U43": ["U43", "U43f", "U43r", "U43rf", "R43", "U43", "U43f", "U43r", "R43", "U43x", "U43sy"], "U43f": ["U43", "U43f", "U43r", "U43rf", "R43"],
    "U43r": ["U43", "U43f", "U43r", "U43rf", "R43"], "U43rf": ["U43", "U43f", "U43r", "U43rf", "R43"],
    "R43": ["U43", "U43f", "U43r", "U43rf", "R43"], "U4": ["U4", "U4f"], "U4f": ["U4", "U4f"],
    # same mesh; the second entry has another data location (a conflict), drawn now and then
    "T43c": ["T43c", "T43c", "T43c", "T43p"], "T43p": ["T43p", "T43p", "T43p", "T43c"],
    "X": ["X", "X", "X", "Xp"], "Xp": ["Xp", "Xp", "Xp", "X"],
    # same numbers; the last entries lie in another CRS (a conflict), drawn now and then
    "U43x": ["U43x", "U43x", "U43x", "U43", "U43s"], "U43y": ["U43y", "U43y", "U43y", "U43", "U43sy"],
    "U43sx": ["U43sx", "U43sx", "U43"], "U43sy": ["U43sy", "U43sy", "U43y"], "R43y": ["R43y", "R43y", "R43", "U43sy"],
    "U432": ["U432", "U432", "U432", "U432z", "U432xy"], "U432z": ["U432z", "U432z", "U432"], "U432xy": ["U432xy", "U432xy", "U432"],
    "U43A": ["U43A", "U43Af", "U43A", "U43Af", "U43B", "U43"], "U43Af": ["U43A", "U43Af", "U43A", "U43B"],
    "U43B": ["U43B", "U43B", "U43B", "U43A"], "U43E": ["U43E", "U43E", "U43E", "U43E2"], "U43E2": ["U43E2", "U43E2", "U43E"],
    "T43A": ["T43A", "T43A", "T43A", "T43B", "T43c"], "T43B": ["T43B", "T43B", "T43A"],
}

# units: name -> ([length, time] exponents, factor to base units)
UTABLE = {
    "": ([0, 0], Fraction(1)), "m": ([1, 0], Fraction(1)), "km": ([1, 0], Fraction(1000)), "mm": ([1, 0], Fraction(1, 1000)),
    "s": ([0, 1], Fraction(1)), "m/s": ([1, -1], Fraction(1)), "mm/d": ([1, -1], Fraction(1, 86400000)),
    "km/h": ([1, -1], Fraction(1000, 3600)), "m*s": ([1, 1], Fraction(1)), "km*s": ([1, 1], Fraction(1000)),
    "s**2": ([0, 2], Fraction(1)), "mm*s": ([1, 1], Fraction(1, 1000)),
}
# pint: (u * s).to_reduced_units().units
SUMTABLE = {"": "s", "m": "m*s", "km": "km*s", "mm": "mm*s", "s": "s**2", "m/s": "m", "mm/d": "mm", "km/h": "km"}
UNIT_NAMES = ["", "m", "km", "s", "m/s", "mm/d", "km/h"]


def _geom_key(g):
    from finam.data.grid_base import StructuredGrid

    if isinstance(g, fm.NoGrid):
        return ("N", tuple(int(x) for x in g.data_shape))
    if isinstance(g, StructuredGrid):
        return ("S", int(g.dim), str(g.crs), tuple(tuple(Fraction(float(x)) for x in ax) for ax in g.axes))
    return ("X", str(g.order), str(g.crs), np.asarray(g.points, dtype=float).tobytes(), np.asarray(g.cells).tobytes(),
            np.asarray(g.cell_types).tobytes())


_GEOM_IDS = {}


def canon_grid(g):
    """real grid object -> (kind, geometry id, location, dim, layout, data shape), from public attributes only"""
    from finam.data.grid_base import StructuredGrid

    if g is None:
        return None
    if not _GEOM_IDS:
        for nm, sp in GSPEC.items():
            _GEOM_IDS.setdefault(_geom_key(_grid_ctor(nm)), sp["geom"])
    geom = _GEOM_IDS.get(_geom_key(g), 999)
    shape = [int(x) for x in g.data_shape]
    if isinstance(g, fm.NoGrid):
        return _g(0, geom, 0, int(g.dim), False, [], shape)
    loc = 0 if g.data_location == fm.Location.CELLS else 1
    if isinstance(g, StructuredGrid):
        return _g(1, geom, loc, int(g.dim), bool(g.axes_reversed), [bool(x) for x in g.axes_increase], shape)
    return _g(2, geom, loc, int(g.dim), False, [], shape)


def _selfcheck():
    for nm, sp in GSPEC.items():
        assert canon_grid(_grid_ctor(nm)) == sp, (nm, canon_grid(_grid_ctor(nm)), sp)


_selfcheck()


def canon_mask(m):
    if m is None:
        return None
    if m is fm.Mask.FLEX:
        return "FLEX"
    if m is fm.Mask.NONE:
        return "NONE"
    if m is np.ma.nomask:
        return "nomask"
    a = np.asarray(m)
    if a.dtype == bool and a.ndim in (1, 2):
        return a.astype(bool).tolist()
    return "other"


def canon_units(u):
    if u is None:
        return None
    if isinstance(u, str):
        u = fm.UNITS.Unit(u)
    d = dict(u.dimensionality)
    le, ti = d.pop("[length]", 0), d.pop("[time]", 0)
    q = fm.UNITS.Quantity(1.0, u).to_base_units()
    fac = Fraction(float(q.magnitude)).limit_denominator(10**10)
    dims = [int(le), int(ti)] + ([99] if d else [])
    return [dims, [fac.numerator, fac.denominator]]


def canon_info(i):
    meta = {k: v for k, v in i.meta.items() if k != "units"}
    return {"time": us_of(i.time), "grid": canon_grid(i.grid), "mask": canon_mask(i.mask),
            "units": canon_units(i.meta.get("units")), "meta": meta}


# ----------------------------------------------------------------------------------------------
# building real objects from a case
# ----------------------------------------------------------------------------------------------
_MASK_POOL = None  # per run: raw bits -> the ONE ndarray object handed to every Info stating these bits


def mk_mask(m):
    if isinstance(m, list) and _MASK_POOL is not None:
        # case flag "share_masks": both ends (and all consumers) get the very same array object, as user code
        # that builds one mask array and passes it to several Infos does
        key = repr(m)
        if key not in _MASK_POOL:
            _MASK_POOL[key] = np.array(m, dtype=bool)
        return _MASK_POOL[key]
    if m is None:
        return None
    if m == "FLEX":
        return fm.Mask.FLEX
    if m == "NONE":
        return fm.Mask.NONE
    if m == "nomask":
        return np.ma.nomask
    return np.array(m, dtype=bool)


def mk_grid(name):
    return None if name is None else _grid_ctor(name)


def mk_info(sp):
    return fm.Info(time=None if sp["time"] is None else T(sp["time"]), grid=mk_grid(sp["grid"]),
                   mask=mk_mask(sp["mask"]), units=sp["units"], **dict(sp["meta"]))


def mk_adapter(a):
    if a[0] == "scale":
        return fm.adapters.Scale(1.0)
    if a[0] == "avg":
        return fm.adapters.AvgOverTime()
    if a[0] == "sum":
        return fm.adapters.SumOverTime(per_time=a[1])
    if a[0] == "regrid":
        return fm.adapters.RegridNearest(in_grid=mk_grid(a[1]), out_grid=mk_grid(a[2]), out_mask=mk_mask(a[3]))
    raise KeyError(a)


def _zeros_for(info):
    shape = tuple(1 if int(s) < 0 else int(s) for s in info.grid.data_shape)
    return np.zeros(shape, dtype=float)


def _count_get_info(out):
    """instance-level wrapper at the Output boundary: number of get_info calls that returned"""
    real = out.get_info
    out._c07_count = [0]

    def get_info(info):
        r = real(info)
        out._c07_count[0] += 1
        return r

    out.get_info = get_info


def _finish(case, out, inputs, lasts, order_done, outcome):
    obs = {"outcome": outcome, "order": order_done}
    obs["exchanged"] = out._c07_count[0]
    try:
        _ = out.info
        obs["gate"] = True
    except fm.errors.FinamNoDataError:
        obs["gate"] = False
    if outcome == "ok":
        obs["inputs"] = [canon_info(inputs[i].info) for i in order_done]
        obs["out"] = canon_info(out.info)
        obs["delivered"] = [canon_info(lasts[i].info if lasts[i] is not None else out.info) for i in order_done]
    else:
        # no data may flow: a push and a pull must both be refused with FinamNoDataError
        try:
            out.push_data(np.zeros(()), None if case["static"] else T(0))
            obs["push_after_fail"] = "ok"
        except Exception as e:  # noqa
            obs["push_after_fail"] = err_class(e)
        try:
            inputs[order_done[-1] if order_done else 0].pull_data(None if case["static"] else T(0))
            obs["pull_after_fail"] = "ok"
        except Exception as e:  # noqa
            obs["pull_after_fail"] = err_class(e)
    return obs


def run_bare(case):
    st = case["static"]
    out = fm.Output(name="Out", static=st)
    _count_get_info(out)
    inputs, lasts = [], []
    for k, c in enumerate(case["consumers"]):
        inp = fm.Input(name=f"In{k}", static=st)
        cur = out
        last = None
        for a in c["chain"]:
            last = mk_adapter(a)
            cur = cur >> last
        cur >> inp
        inputs.append(inp)
        lasts.append(last)
    for inp in inputs:
        inp.ping()
    early = None
    if case.get("early"):
        i0 = case["order"][0]
        try:
            inputs[i0].exchange_info(mk_info(case["consumers"][i0]["info"]))
            early = "ok"
        except Exception as e:  # noqa
            early = err_class(e)
    if case["out"] is not None:
        out.push_info(mk_info(case["out"]))
    done, outcome = [], "ok"
    for i in case["order"]:
        done.append(i)
        try:
            inputs[i].exchange_info(mk_info(case["consumers"][i]["info"]))
        except Exception as e:  # noqa
            outcome = err_class(e)
            break
    obs = _finish(case, out, inputs, lasts, done, outcome)
    obs["early"] = early
    return obs


def run_comp(case):
    log = []

    class Prod(fm.TimeComponent):
        def __init__(self, spec):
            super().__init__()
            self.time = T(0)
            self._spec = spec

        def _next_time(self):
            return self.time + timedelta(days=1)

        def _initialize(self):
            self.outputs.add(name="Out", info=mk_info(self._spec))
            self.create_connector()

        def _connect(self, start_time):
            push = {}
            try:
                push["Out"] = _zeros_for(self.outputs["Out"].info)
            except fm.errors.FinamNoDataError:
                pass
            self.try_connect(start_time, push_data=push)

        def _validate(self):
            pass

        def _update(self):
            pass

        def _finalize(self):
            pass

    class Cons(fm.TimeComponent):
        def __init__(self, spec):
            super().__init__()
            self.time = T(0)
            self._spec = spec

        def _next_time(self):
            return self.time  # pragma: no cover

        def _initialize(self):
            self.inputs.add(name="In", info=mk_info(self._spec))
            self.create_connector()

        def _connect(self, start_time):
            self.try_connect(start_time)

        def _validate(self):
            pass

        def _update(self):
            pass

        def _finalize(self):
            pass

    prod = Prod(case["out"])
    conss = [Cons(c["info"]) for c in case["consumers"]]
    listing = [conss[i] for i in case["order"]]
    listing.insert(min(case.get("prod_pos", 0), len(listing)), prod)
    comp = fm.Composition(listing, print_log=False)
    out = prod.outputs["Out"]
    _count_get_info(out)
    inputs, lasts = [], []
    for k, c in enumerate(case["consumers"]):
        inp = conss[k].inputs["In"]
        cur = out
        last = None
        for a in c["chain"]:
            last = mk_adapter(a)
            cur = cur >> last
        cur >> inp
        inputs.append(inp)
        lasts.append(last)

        def wrap(inp=inp, k=k):
            real = inp.exchange_info

            def exchange_info(info=None):
                try:
                    r = real(info)
                except fm.errors.FinamNoDataError:
                    raise
                except Exception:
                    log.append(k)
                    raise
                log.append(k)
                return r

            inp.exchange_info = exchange_info

        wrap()
    outcome = "ok"
    try:
        comp.connect(T(0))
    except Exception as e:  # noqa
        outcome = err_class(e)
    obs = _finish(case, out, inputs, lasts, list(log), outcome)
    obs["early"] = None
    if outcome == "ok":
        obs["statuses"] = sorted({str(c.status).rsplit(".", 1)[-1] for c in listing})
    return obs


class _Slotted(fm.TimeComponent):
    """harness component: pushes zero data for its output "Out" (if any) as soon as that output's info is exchanged"""

    def __init__(self):
        super().__init__()
        self.time = T(0)

    def _next_time(self):
        return self.time + timedelta(days=1)  # pragma: no cover

    def _push_data(self):
        push = {}
        if "Out" in self.outputs:
            try:
                push["Out"] = _zeros_for(self.outputs["Out"].info)
            except fm.errors.FinamNoDataError:
                pass
        return push

    def _connect(self, start_time):
        self.try_connect(start_time, push_data=self._push_data())

    def _validate(self):
        pass

    def _update(self):
        pass

    def _finalize(self):
        pass


class _Prod(_Slotted):
    """producer; with push_every it hands a freshly built Info to try_connect(push_infos=...) in EVERY _connect
    call (as finam's CsvReader does) instead of declaring it on the output"""

    def __init__(self, spec, push_every):
        super().__init__()
        self._spec, self._every = spec, push_every

    def _initialize(self):
        if self._every:
            self.outputs.add(name="Out")
        else:
            self.outputs.add(name="Out", info=mk_info(self._spec))
        self.create_connector()

    def _connect(self, start_time):
        if self._every:
            self.try_connect(start_time, push_infos={"Out": mk_info(self._spec)}, push_data=self._push_data())
        else:
            self.try_connect(start_time, push_data=self._push_data())


class _Cons(_Slotted):
    def __init__(self, spec):
        super().__init__()
        self._spec = spec

    def _initialize(self):
        self.inputs.add(name="In", info=mk_info(self._spec))
        self.create_connector()


class _Relay(_Slotted):
    """component between two links; one slot's info is composed by info transfer rules from the other slot's
    exchanged info: a complete transfer followed by FromValue overrides"""

    def __init__(self, fwd, spec, ovu, ovm):
        super().__init__()
        self._fwd, self._spec, self._ovu, self._ovm = fwd, spec, ovu, ovm

    def _initialize(self):
        from finam.tools import FromInput, FromOutput, FromValue

        rules = [FromInput("In") if self._fwd else FromOutput("Out")]
        if self._ovu is not None:
            rules.append(FromValue("units", fm.UNITS.Unit(self._ovu)))
        rules += [FromValue(k, v) for k, v in sorted(self._ovm.items())]
        if self._fwd:
            self.inputs.add(name="In", info=mk_info(self._spec))
            self.outputs.add(name="Out")
            self.create_connector(out_info_rules={"Out": rules})
        else:
            self.inputs.add(name="In")
            self.outputs.add(name="Out", info=mk_info(self._spec))
            self.create_connector(in_info_rules={"In": rules})


def _log_exchanges(inp, key, log):
    real = inp.exchange_info

    def exchange_info(info=None):
        try:
            r = real(info)
        except fm.errors.FinamNoDataError:
            raise
        except Exception:
            log.append(key)
            raise
        log.append(key)
        return r

    inp.exchange_info = exchange_info


def _link(out, chain, inp):
    cur, last = out, None
    for a in chain:
        last = mk_adapter(a)
        cur = cur >> last
    cur >> inp
    return last


def run_relay(case):
    """P.Out -> side consumers and -> Relay.In ; Relay.Out -> far consumers; real components, Composition.connect()"""
    r = case["relay"]
    fwd = case["dir"] == "fwd"
    prod = _Prod(case["out"], case["push_every"])
    relay = _Relay(fwd, r["info"], r["ovu"], r["ovm"])
    side = [_Cons(c["info"]) for c in case["side"]]
    far = [_Cons(c["info"]) for c in case["far"]]
    comps = {"P": prod, "R": relay}
    comps.update({f"S{i}": c for i, c in enumerate(side)})
    comps.update({f"F{i}": c for i, c in enumerate(far)})
    comp = fm.Composition([comps[n] for n in case["order"]], print_log=False)
    pout, rout = prod.outputs["Out"], relay.outputs["Out"]
    _count_get_info(pout)
    log1, log2 = [], []
    links1, links2 = {}, {}
    for i, c in enumerate(case["side"]):
        inp = side[i].inputs["In"]
        links1[i] = (inp, _link(pout, c["chain"], inp))
        _log_exchanges(inp, i, log1)
    rin = relay.inputs["In"]
    links1["R"] = (rin, _link(pout, r["chain"], rin))
    _log_exchanges(rin, "R", log1)
    for i, c in enumerate(case["far"]):
        inp = far[i].inputs["In"]
        links2[i] = (inp, _link(rout, c["chain"], inp))
        _log_exchanges(inp, i, log2)
    outcome = "ok"
    try:
        comp.connect(T(0))
    except Exception as e:  # noqa
        outcome = err_class(e)
    obs = {"outcome": outcome, "order1": list(log1), "order2": list(log2), "exchanged": 0, "gate": False}
    if outcome == "ok":
        obs["exchanged"] = pout._c07_count[0]
        try:
            _ = pout.info
            obs["gate"] = True
        except fm.errors.FinamNoDataError:
            pass
        obs["inputs1"] = [canon_info(links1[k][0].info) for k in log1]
        obs["delivered1"] = [canon_info(links1[k][1].info if links1[k][1] is not None else pout.info) for k in log1]
        obs["inputs2"] = [canon_info(links2[k][0].info) for k in log2]
        obs["delivered2"] = [canon_info(links2[k][1].info if links2[k][1] is not None else rout.info) for k in log2]
        obs["out"] = canon_info(pout.info)
        obs["rout"] = canon_info(rout.info)
    return obs


def run_accepts(case):
    """direct call of the public Info.accepts in the given direction"""
    try:
        r = mk_info(case["self"]).accepts(mk_info(case["inc"]), {}, incoming_donwstream=case["down"])
        return {"outcome": "True" if r else "False", "exchanged": 0, "gate": False}
    except Exception as e:  # noqa
        return {"outcome": err_class(e), "exchanged": 0, "gate": False}


def run_impl(case):
    global _MASK_POOL
    _MASK_POOL = {} if case.get("share_masks") else None
    try:
        return _run_impl(case)
    finally:
        _MASK_POOL = None


def _run_impl(case):
    if case["mode"] == "accepts":
        return run_accepts(case)
    if case["mode"] == "relay":
        return run_relay(case)
    return run_comp(case) if case["mode"] == "comp" else run_bare(case)


# ----------------------------------------------------------------------------------------------
# Gallina emitter
# ----------------------------------------------------------------------------------------------
def BL(l):
    return L(B(x) for x in l)


def coq_gridspec(sp):
    kind = ["KNoGrid", "KStruct", "KUnstr"][sp["kind"]]
    shape = L(N(4000 if s < 0 else s) for s in sp["shape"])
    return C("mkG", kind, Z(sp["geom"]), Z(sp["loc"]), N(sp["dim"]), B(sp["rev"]), BL(sp["inc"]), shape)


def coq_grid_opt(sp):
    return NONE if sp is None else Some(coq_gridspec(sp))


def coq_mask_opt(m):
    if m is None:
        return NONE
    if m == "FLEX":
        return Some("MFlex")
    if m == "NONE":
        return Some("MNone")
    if m == "nomask":
        return Some("MNoMask")
    if m == "other":
        return Some(C("MBits", C("B1", L([]))))  # cannot be produced by the model with these cases: mismatch
    if len(m) > 0 and isinstance(m[0], list):
        return Some(C("MBits", C("B2", L(BL(r) for r in m))))
    return Some(C("MBits", C("B1", BL(m))))


def coq_unit(dims, fac):
    return C("mkU", L(Z(d) for d in dims), Q(fac))


def coq_unit_opt_name(name):
    return NONE if name is None else Some(coq_unit(*UTABLE[name]))


def coq_unit_opt_canon(u):
    return NONE if u is None else Some(coq_unit(u[0], Fraction(u[1][0], u[1][1])))


MKEYS = {"k1": 1, "k2": 2}


def coq_meta(meta):
    items = []
    for k in sorted(meta):
        v = meta[k]
        items.append(P(Z(MKEYS.get(k, 77)), NONE if v is None else Some(Z(v))))
    return L(items)


def coq_info_spec(sp):
    g = None if sp["grid"] is None else GSPEC[sp["grid"]]
    return C("mkI", NONE if sp["time"] is None else Some(Z(sp["time"])), coq_grid_opt(g), coq_mask_opt(sp["mask"]),
             coq_unit_opt_name(sp["units"]), coq_meta(sp["meta"]))


def coq_info_canon(ci):
    return C("mkI", NONE if ci["time"] is None else Some(Z(ci["time"])), coq_grid_opt(ci["grid"]), coq_mask_opt(ci["mask"]),
             coq_unit_opt_canon(ci["units"]), coq_meta(ci["meta"]))


_SUMTBL = None


def coq_adapter(a):
    global _SUMTBL
    if a[0] in ("scale", "avg"):
        return "APlain"
    if a[0] == "sum":
        if _SUMTBL is None:
            _SUMTBL = L(P(coq_unit(*UTABLE[k]), coq_unit(*UTABLE[v])) for k, v in SUMTABLE.items())
        return C("ASum", B(a[1]), _SUMTBL)
    return C("ARegrid", coq_grid_opt(None if a[1] is None else GSPEC[a[1]]),
             coq_grid_opt(None if a[2] is None else GSPEC[a[2]]), coq_mask_opt(a[3]))


def _exchange_order(case, obs):
    """consumers in the order in which their exchanges were attempted, then the ones never reached"""
    done = list(obs.get("order", []))
    rest = [i for i in case["order"] if i not in done]
    return done + rest


def coq_case(case, obs):
    if case["mode"] == "accepts":
        return C("CAccepts", coq_info_spec(case["self"]), coq_info_spec(case["inc"]), B(case["down"]))
    if case["mode"] == "relay":
        return _coq_relay_case(case, obs)
    cons = []
    for i in _exchange_order(case, obs):
        c = case["consumers"][i]
        chain = L(coq_adapter(a) for a in reversed(c["chain"]))  # model: from the input towards the output
        cons.append(C("mkC", chain, coq_info_spec(c["info"])))
    oi = NONE if case["out"] is None else Some(coq_info_spec(case["out"]))
    return C("CExchange", oi, B(case["static"]), L(cons))


def _coq_consumer(c, info_term=None):
    chain = L(coq_adapter(a) for a in reversed(c["chain"]))
    return C("mkC", chain, info_term or coq_info_spec(c["info"]))


def _coq_relay_case(case, obs):
    r = case["relay"]
    o1 = list(obs.get("order1", []))
    if "R" in o1:
        k = o1.index("R")
        before, after = o1[:k], o1[k + 1:]
        after += [i for i in range(len(case["side"])) if i not in before and i not in after]
    else:
        before = o1 + [i for i in range(len(case["side"])) if i not in o1]
        after = []
    o2 = list(obs.get("order2", []))
    o2 += [i for i in range(len(case["far"])) if i not in o2]
    ovm = L(P(Z(MKEYS.get(k, 77)), Some(Z(v))) for k, v in sorted(r["ovm"].items()))
    return C("CRelay", B(case["dir"] == "fwd"), coq_info_spec(case["out"]),
             L(_coq_consumer(case["side"][i]) for i in before), L(_coq_consumer(case["side"][i]) for i in after),
             L(coq_adapter(a) for a in reversed(r["chain"])), coq_info_spec(r["info"]),
             coq_unit_opt_name(r["ovu"]), ovm, L(_coq_consumer(case["far"][i]) for i in o2))


OUTCOME = {"ok": 0, "MetaDataError": 1, "NoDataError": 2, "True": 10, "False": 11}


def coq_obs(case, obs):
    oc = OUTCOME.get(obs["outcome"], 3)
    if case["mode"] == "relay":
        if oc != 0:
            return C("mkObs", Z(oc), L([]), NONE, N(0), B(False))
        ins = L(coq_info_canon(x) for x in obs["inputs1"] + obs["inputs2"] + [obs["rout"]])
        return C("mkObs", Z(0), ins, Some(coq_info_canon(obs["out"])), N(obs["exchanged"]), B(obs["gate"]))
    if case.get("early") and obs.get("early") != "NoDataError":
        oc = 9  # an exchange before push_info must raise FinamNoDataError and leave no trace
    ins = L(coq_info_canon(x) for x in obs.get("inputs", []))
    out = Some(coq_info_canon(obs["out"])) if "out" in obs else NONE
    return C("mkObs", Z(oc), ins, out, N(obs["exchanged"]), B(obs["gate"]))


# ----------------------------------------------------------------------------------------------
# property monitor: the C07_agree / C07_reject predicates on the real infos (independent of the model)
# ----------------------------------------------------------------------------------------------
def _raw_to_canon(bits, g):
    """own implementation of the layout rule: data axes reversed -> transpose, decreasing axis -> flip"""
    a = np.array(bits, dtype=bool)
    if g is None or g["kind"] != 1:
        return a
    if list(a.shape) != list(g["shape"]):
        return None
    if g["rev"] and a.ndim > 1:
        a = a.T
    for ax, inc in enumerate(g["inc"]):
        if not inc:
            a = np.flip(a, axis=ax)
    return a


def mask_accept_spec(down, dgrid, up, ugrid):
    """documented acceptance relation; down = consumer's declared mask with its declared grid (or None),
    up = delivered mask with the delivered grid"""
    if up is None:
        return False
    if down == "FLEX":
        return True
    if down == "NONE":
        return up == "NONE"
    if up in ("FLEX", "NONE"):
        return False
    if down == "nomask":
        return up == "nomask" or not np.any(np.array(up))
    if up == "nomask":
        return not np.any(np.array(down))
    a, b = np.array(down, dtype=bool), np.array(up, dtype=bool)
    if a.ndim != b.ndim:
        return False
    if dgrid is not None and ugrid is not None:
        a, b = _raw_to_canon(down, dgrid), _raw_to_canon(up, ugrid)
        if a is None or b is None:
            return False
    return a.shape == b.shape and bool(np.all(a == b))


def _compatible(g, h):
    return g is not None and h is not None and (g["kind"], g["geom"], g["loc"]) == (h["kind"], h["geom"], h["loc"])


def _plain(chain):
    return all(a[0] in ("scale", "avg") or (a[0] == "sum" and not a[1]) for a in chain)


def _link_failure(who, decl, got, dl, static):
    """C07 on one link: [decl] what the consumer declared (None: the request was composed by info rules),
    [got] the input's info after connect, [dl] the info held by the source end of the link"""
    # no unset field
    if got["grid"] is None or got["units"] is None or got["mask"] is None:
        return f"{who}: input info has an unset field after connect: {got}"
    if got["time"] is None and not static:
        return f"{who}: input time unset on a non-static link"
    if any(v is None for v in got["meta"].values()):
        return f"{who}: unset meta entry after connect: {got['meta']}"
    # same data locations / convertible units / mask requirement
    if not _compatible(got["grid"], dl["grid"]):
        return f"{who}: input grid {got['grid']} does not describe the delivered grid {dl['grid']}"
    if dl["units"] is None or got["units"][0] != dl["units"][0]:
        return f"{who}: input units {got['units']} not convertible from delivered {dl['units']}"
    if got["mask"] != dl["mask"]:
        return f"{who}: input mask {got['mask']} differs from the delivered mask {dl['mask']}"
    if decl is None:
        return None
    dgrid = None if decl["grid"] is None else GSPEC[decl["grid"]]
    if decl["mask"] is not None and not mask_accept_spec(decl["mask"], dgrid, dl["mask"], dl["grid"]):
        return (f"{who}: mask requirement {decl['mask']} (written in the layout of the consumer's grid {decl['grid']}) not "
                f"satisfied by delivered mask {dl['mask']} (layout rev={dl['grid']['rev']} inc={dl['grid']['inc']}): "
                f"they denote different cells")
    # declared values are kept, unset ones carry the delivered values
    for f in ("time", "grid", "units"):
        if f == "time" and static:
            continue  # static links: time is exempt
        want = decl[f]
        if f == "grid" and want is not None:
            want = GSPEC[want]
        if f == "units" and want is not None:
            want = [UTABLE[want][0], [UTABLE[want][1].numerator, UTABLE[want][1].denominator]]
        if want is None:
            if got[f] != dl[f]:
                return f"{who}: {f} unset on the input but {got[f]} != delivered {dl[f]}"
        elif got[f] != want:
            return f"{who}: declared {f} {want} changed to {got[f]}"
    for k, v in decl["meta"].items():
        if v is not None and got["meta"].get(k) != v:
            return f"{who}: declared meta {k}={v} became {got['meta'].get(k)}"
        if v is None and k in dl["meta"] and got["meta"].get(k) != dl["meta"][k]:
            return f"{who}: unset meta {k} does not carry the delivered value"
    for k, v in dl["meta"].items():
        if k not in decl["meta"] and got["meta"].get(k) != v:
            return f"{who}: delivered meta {k}={v} missing on the input"
    return None


def _declared_kept(who, decl, o):
    """a slot's declared (set) fields are still what its info says after connect"""
    if o["grid"] is None or o["units"] is None or o["mask"] is None or o["time"] is None or any(
            v is None for v in o["meta"].values()):
        return f"{who}: output info has an unset field after connect: {o}"
    if decl["grid"] is not None and o["grid"] != GSPEC[decl["grid"]]:
        return f"{who}: declared grid changed to {o['grid']}"
    if decl["units"] is not None and (o["units"][0] != UTABLE[decl["units"]][0] or Fraction(*o["units"][1]) != UTABLE[decl["units"]][1]):
        return f"{who}: declared units {decl['units']} changed to {o['units']}"
    for k, v in decl["meta"].items():
        if v is not None and o["meta"].get(k) != v:
            return f"{who}: declared meta {k}={v} became {o['meta'].get(k)}"
    return None


def _monitor_relay(case, obs):
    oc = obs["outcome"]
    if oc != "ok":
        return None if oc == "MetaDataError" else f"connect() failed with {oc}, not with FinamMetaDataError"
    if not obs["gate"]:
        return "connect() succeeded but the producer's output info is not available"
    fwd = case["dir"] == "fwd"
    for pos, k in enumerate(obs["order1"]):
        if k == "R":
            decl, who = (case["relay"]["info"] if fwd else None), "link P.Out -> Relay.In"
        else:
            decl, who = case["side"][k]["info"], f"link P.Out -> S{k}.In"
        f = _link_failure(who, decl, obs["inputs1"][pos], obs["delivered1"][pos], False)
        if f:
            return f
    for pos, k in enumerate(obs["order2"]):
        f = _link_failure(f"link Relay.Out -> F{k}.In", case["far"][k]["info"], obs["inputs2"][pos], obs["delivered2"][pos], False)
        if f:
            return f
    if len(obs["order1"]) != len(case["side"]) + 1 or len(obs["order2"]) != len(case["far"]):
        return "connect() succeeded although not every input exchanged its info"
    f = _declared_kept("P.Out", case["out"], obs["out"])
    if f:
        return f
    if not fwd:
        f = _declared_kept("Relay.Out", case["relay"]["info"], obs["rout"])
        if f:
            return f
    return None


def monitor(case, obs):
    if case["mode"] == "relay":
        return _monitor_relay(case, obs)
    if case["mode"] == "accepts":
        if obs["outcome"] not in ("True", "False"):
            return f"Info.accepts raised {obs['outcome']}"
        return None
    if case.get("early") and obs.get("early") != "NoDataError":
        return f"exchange before the producer pushed its info gave {obs.get('early')} instead of FinamNoDataError"
    oc = obs["outcome"]
    if oc != "ok":
        if oc == "NoDataError" and case["out"] is None:
            pass
        elif oc != "MetaDataError":
            return f"metadata exchange failed with {oc}, not with FinamMetaDataError"
        return None
    if not obs["gate"]:
        return "all exchanges succeeded but the output info is not available"
    static = case["static"]
    out_decl = case["out"]
    for pos, i in enumerate(obs["order"]):
        f = _link_failure(f"consumer {i}", case["consumers"][i]["info"], obs["inputs"][pos], obs["delivered"][pos], static)
        if f:
            return f
    # producer side: declared values kept, unset ones filled by the first requester that provides them
    o = obs["out"]
    if o["grid"] is None or o["units"] is None or o["mask"] is None or any(v is None for v in o["meta"].values()):
        return f"output info has an unset field after connect: {o}"
    if o["time"] is None and not static:
        return "output time unset on a non-static link"
    if static and o["time"] != out_decl["time"]:
        return f"static output changed its time from {out_decl['time']} to {o['time']}"
    if out_decl["grid"] is not None and o["grid"] != GSPEC[out_decl["grid"]]:
        return "declared producer grid changed"
    if out_decl["mask"] is not None and o["mask"] != out_decl["mask"]:
        return "declared producer mask changed"
    first = case["consumers"][obs["order"][0]]
    if _plain(first["chain"]):
        fi = first["info"]
        if out_decl["grid"] is None and o["grid"] != (None if fi["grid"] is None else GSPEC[fi["grid"]]):
            return f"producer grid unset but not taken from the first requester: {o['grid']}"
        if out_decl["units"] is None and (fi["units"] is None or o["units"][0] != UTABLE[fi["units"]][0]
                                          or Fraction(*o["units"][1]) != UTABLE[fi["units"]][1]):
            return f"producer units unset but not taken from the first requester: {o['units']}"
        if out_decl["time"] is None and not static and o["time"] != fi["time"]:
            return "producer time unset but not taken from the first requester"
        for k, v in out_decl["meta"].items():
            if v is None and o["meta"].get(k) != fi["meta"].get(k):
                return f"producer meta {k} unset but not taken from the first requester"
    # every consumer's request must have been acceptable to the producer (both directions)
    for pos, i in enumerate(obs["order"]):
        c = case["consumers"][i]
        if not _plain(c["chain"]):
            continue
        decl = c["info"]
        if decl["grid"] is not None and not _compatible(GSPEC[decl["grid"]], o["grid"]):
            return f"consumer {i}: grid conflict with the producer was not rejected"
        if decl["units"] is not None and UTABLE[decl["units"]][0] != o["units"][0]:
            return f"consumer {i}: units conflict with the producer was not rejected"
    return None


def nontrivial(case, obs):
    if case["mode"] == "accepts":
        return False
    if case["mode"] == "relay":
        return True
    if obs["outcome"] != "ok":
        return case["out"] is not None
    o = case["out"]

    def unset(sp):
        return sp["time"] is None or sp["grid"] is None or sp["units"] is None or sp["mask"] is None or any(
            v is None for v in sp["meta"].values())

    return unset(o) and any(unset(c["info"]) for c in case["consumers"])


# ----------------------------------------------------------------------------------------------
# generator
# ----------------------------------------------------------------------------------------------
CANON_MASKS = {  # canonical bit patterns per geometry (xyz order, increasing axes)
    10: {"A": [[True, False], [False, False], [False, False]], "B": [[False, True], [False, False], [False, True]],
         "Z": [[False, False], [False, False], [False, False]]},
    11: {"A": [[True, False], [False, False], [False, False], [False, True]],
         "B": [[False, False], [False, True], [False, False], [False, False]], "Z": [[False] * 2] * 4},
    12: {"A": [True, False, False], "B": [False, False, True], "Z": [False, False, False]},
    20: {"A": [True, False], "B": [False, True], "Z": [False, False]},
    21: {"A": [True, False], "B": [False, True], "Z": [False, False]},
    3: {"A": [True, False, False], "B": [False, True, True], "Z": [False, False, False]},
}


def mask_in_layout(gname, which):
    """the canonical pattern [which] of the grid's geometry, written in the grid's own layout"""
    sp = GSPEC[gname]
    if sp["loc"] == 1 or sp["geom"] not in CANON_MASKS:
        return None
    a = np.array(CANON_MASKS[sp["geom"]][which], dtype=bool)
    if sp["kind"] == 1:
        for ax, inc in enumerate(sp["inc"]):
            if not inc:
                a = np.flip(a, axis=ax)
        if sp["rev"] and a.ndim > 1:
            a = a.T
    assert list(a.shape) == sp["shape"], (gname, a.shape)
    return a.tolist()


RAW_MASKS = [[[True, False], [False, False], [False, False]], [[False, True], [False, False], [False, True]],
             [[True, False, False], [False, False, False]], [True, False, False], [[False, False], [False, False], [False, False]]]


def _gen_mask(rng, gname, p_unset=0.1):
    r = rng.random()
    if r < p_unset:
        return None
    if r < 0.45:
        return "FLEX"
    if r < 0.55:
        return "NONE"
    if r < 0.65:
        return "nomask"
    if gname is None:
        return rng.choice(RAW_MASKS)
    m = mask_in_layout(gname, rng.choice(["A", "A", "B", "Z"]))
    return m if m is not None else "FLEX"


def _gen_meta(rng, p_none):
    meta = {}
    for k in ("k1", "k2"):
        r = rng.random()
        if r < 0.45:
            continue
        meta[k] = None if r < 0.45 + p_none else rng.choice([5, 5, 7])
    return meta


def _compatible_mask(rng, ref, grid):
    """a consumer mask the producer mask [ref['mask']] satisfies (mostly)"""
    pm = ref["mask"]
    if pm is None:
        return rng.choice(["FLEX", None, None])
    if pm == "FLEX":
        return rng.choice(["FLEX", "FLEX", None])
    if pm == "NONE":
        return rng.choice(["FLEX", "NONE", "NONE", None])
    zero = mask_in_layout(grid, "Z") if grid is not None else None
    if pm == "nomask":
        return rng.choice(["FLEX", "nomask", None] + ([zero] if zero is not None else []))
    # explicit bits: the same pattern in this consumer's layout, or raw when a grid is missing
    m = None
    if grid is not None and ref["grid"] is not None and GSPEC[grid]["geom"] == GSPEC[ref["grid"]]["geom"]:
        for w in ("A", "B", "Z"):
            if mask_in_layout(ref["grid"], w) == pm:
                m = mask_in_layout(grid, w)
    elif grid is None or ref["grid"] is None:
        m = pm
        if grid is not None and list(np.shape(m)) != GSPEC[grid]["shape"]:
            m = None
    if m is not None and not np.any(np.array(m)) and rng.random() < 0.3:
        return "nomask"
    return rng.choice([m, m, "FLEX", None]) if m is not None else rng.choice(["FLEX", None])


def _gen_info(rng, grid_pool, ref=None, conflict=0.15):
    """ref = producer spec to stay mostly compatible with"""
    sp = {}

    def unset(f):
        if ref is None:
            return rng.random() < 0.22
        return rng.random() < (0.06 if ref[f] is None else 0.25)

    sp["time"] = None if unset("time") else rng.choice([0, 0, 86400 * 10**6])
    if unset("grid"):
        sp["grid"] = None
    elif ref is not None and ref["grid"] is not None and rng.random() > conflict:
        sp["grid"] = rng.choice(SAME_GEOM.get(ref["grid"], [ref["grid"]]))
    else:
        sp["grid"] = rng.choice(grid_pool)
    if unset("units"):
        sp["units"] = None
    elif ref is not None and ref["units"] is not None and rng.random() > conflict:
        dims = UTABLE[ref["units"]][0]
        sp["units"] = rng.choice([u for u in UNIT_NAMES if UTABLE[u][0] == dims])
    else:
        sp["units"] = rng.choice(UNIT_NAMES)
    if ref is not None and rng.random() > conflict:
        sp["mask"] = _compatible_mask(rng, ref, sp["grid"])
    else:
        sp["mask"] = _gen_mask(rng, sp["grid"], p_unset=0.05)
    if ref is None:
        sp["meta"] = _gen_meta(rng, 0.12)
    else:
        sp["meta"] = _gen_meta(rng, 0.15)
        for k, v in ref["meta"].items():
            if v is None and rng.random() > conflict / 2:
                sp["meta"][k] = rng.choice([5, 7])
    return sp


def _gen_chain(rng, regrid_ok, out, cinfo):
    r = rng.random()
    if r < 0.45:
        return []
    n = 1 if r < 0.85 else 2
    chain = []
    for _ in range(n):
        k = rng.choice(["scale", "avg", "sum", "sum", "regrid", "regrid"] if regrid_ok else ["scale", "avg", "sum", "sum"])
        if k == "sum":
            chain.append(["sum", rng.random() < 0.7])
        elif k == "regrid":
            ig = None if rng.random() < 0.6 else rng.choice(REAL_GRIDS)
            og = None
            if rng.random() < 0.5:
                r2 = rng.random()
                if cinfo["grid"] is not None and r2 < 0.55:
                    og = cinfo["grid"]
                elif cinfo["grid"] is not None and r2 < 0.8:
                    og = rng.choice(SAME_GEOM.get(cinfo["grid"], [cinfo["grid"]]))  # compatible, maybe another layout
                else:
                    og = rng.choice(REAL_GRIDS)
            om = None
            if rng.random() < 0.35:
                tgt = og or cinfo["grid"]
                om = _gen_mask(rng, tgt, p_unset=0.0) if tgt is not None else rng.choice(["FLEX", "NONE", "nomask"])
            chain.append(["regrid", ig, og, om])
        else:
            chain.append([k])
    return chain


def _regrid_safe(case):
    """keep RegridNearest inside the modelled domain: only grids with a CRS attribute meet the adapter and
    explicit producer masks fit the source grid"""
    o = case["out"]
    for c in case["consumers"]:
        ci = c["info"]
        for pos, a in enumerate(c["chain"]):
            if a[0] != "regrid":
                continue
            if any(b[0] == "regrid" for b in c["chain"][:pos] + c["chain"][pos + 1:]):
                return False
            if o is None:
                continue
            src = a[1] or o["grid"]
            if o["grid"] is not None and o["grid"] not in REAL_GRIDS:
                return False
            if ci["grid"] is not None and ci["grid"] not in REAL_GRIDS:
                return False
            if isinstance(o["mask"], list) and (src is None or list(np.shape(o["mask"])) != GSPEC[src]["shape"]):
                return False
            tgt = a[2] or ci["grid"]
            om = a[3] if a[3] is not None else ci["mask"]
            if isinstance(om, list) and tgt is not None and int(np.size(np.array(om))) != int(np.prod(GSPEC[tgt]["shape"])):
                return False  # RegridNearest indexes the target points with the mask: IndexError (reported, not modelled as C07)
            if a[1] is not None and o["grid"] is not None and not (
                    GSPEC[a[1]]["kind"], GSPEC[a[1]]["geom"], GSPEC[a[1]]["loc"]) == (
                    GSPEC[o["grid"]]["kind"], GSPEC[o["grid"]]["geom"], GSPEC[o["grid"]]["loc"]):
                pass  # conflict: refused by the output before the adapter builds anything
    return True


def _comp_safe(case):
    o = case["out"]
    if o is None or o["mask"] is None or case["static"]:
        return False
    if isinstance(o["mask"], list) and o["grid"] is None:
        return False
    return True


ALL_GRIDS = list(GSPEC)


def _gen_case(rng, i):
    mode = "comp" if i % 10 in (3, 7, 9) else "bare"
    static = mode == "bare" and rng.random() < 0.15
    m = rng.choice([1, 1, 2, 2, 3])
    for _ in range(50):
        use_regrid = rng.random() < 0.35
        pool = REAL_GRIDS if use_regrid else ALL_GRIDS
        out = _gen_info(rng, pool)
        out["mask"] = _gen_mask(rng, out["grid"], p_unset=0.06)
        consumers = []
        for _k in range(m):
            ci = _gen_info(rng, pool, ref=out, conflict=0.08 / m + 0.02)
            consumers.append({"info": ci, "chain": _gen_chain(rng, use_regrid, out, ci)})
        order = list(range(m))
        rng.shuffle(order)
        case = {"share_masks": rng.random() < 0.5,
                "mode": mode, "static": static, "out": out, "consumers": consumers, "order": order,
                "early": mode == "bare" and rng.random() < 0.15, "prod_pos": rng.randrange(m + 1)}
        if mode == "bare" and rng.random() < 0.02:
            case["out"] = None
        if not _regrid_safe(case):
            continue
        if mode == "comp" and not _comp_safe(case):
            continue
        return case
    raise RuntimeError("generator could not produce a case")


def _I(time=0, grid="U43", mask="FLEX", units="m", **meta):
    return {"time": time, "grid": grid, "mask": mask, "units": units, "meta": meta}


_A32 = [[True, False], [False, False], [False, False]]
_B32 = [[False, True], [False, False], [False, True]]


def _case(out, consumers, mode="bare", static=False, order=None, early=False, prod_pos=0):
    return {"mode": mode, "static": static, "out": out,
            "consumers": [{"info": c[0], "chain": c[1]} for c in consumers],
            "order": order or list(range(len(consumers))), "early": early, "prod_pos": prod_pos}


def _relay_case(out, side, relay, far, direction, order=None, push_every=False):
    """relay = (info spec, chain, override units or None, override meta)"""
    names = ["P", "R"] + [f"S{i}" for i in range(len(side))] + [f"F{i}" for i in range(len(far))]
    return {"mode": "relay", "dir": direction, "out": out, "push_every": push_every,
            "side": [{"info": c[0], "chain": c[1]} for c in side],
            "relay": {"info": relay[0], "chain": relay[1], "ovu": relay[2], "ovm": relay[3]},
            "far": [{"info": c[0], "chain": c[1]} for c in far], "order": order or names}


CORPUS = [
    # the four situations of tests/core/test_propagate_info.py
    _case(_I(units="m"), [(_I(units="km"), [])], mode="comp"),
    _case(_I(units="m"), [(_I(units="m/s"), [])], mode="comp"),
    _case(_I(grid=None, units=None, time=None), [(_I(units="km"), [])], mode="comp"),
    _case(_I(units="m"), [(_I(grid=None, units=None, time=None), [])], mode="comp", prod_pos=1),
    # F11 (fixed): consumer states an explicit mask but leaves its grid to the source; masks differ
    _case(_I(mask=_A32), [(_I(grid=None, mask=_B32), [])]),
    # F11 (fixed): source without grid, mask of another shape: was a plain ValueError
    _case(_I(grid=None, mask=[[True, False, False], [False, False, False]]), [(_I(mask=_B32), [])]),
    # F13 (fixed): mask unset on both sides
    _case(_I(mask=None), [(_I(mask=None), [])]),
    # equal after layout / different after layout
    _case(_I(mask=_A32), [(_I(grid="U43f", mask=mask_in_layout("U43f", "A")), [])]),
    _case(_I(mask=_A32), [(_I(grid="U43r", mask=mask_in_layout("U43r", "B")), [])]),
    # first requester decides the layout of an unset producer grid: both orders
    _case(_I(grid=None), [(_I(grid="U43"), []), (_I(grid="U43r"), [["scale"]])], order=[0, 1]),
    _case(_I(grid=None), [(_I(grid="U43"), []), (_I(grid="U43r"), [["scale"]])], order=[1, 0]),
    # rewriting adapters
    _case(_I(grid="U53", units="m/s"), [(_I(grid="U43", units=None), [["sum", True], ["regrid", None, None, None]])]),
    _case(_I(grid=None), [(_I(grid="U43", mask=_B32), [["regrid", "U53", None, None]])], mode="comp"),
    _case(_I(units="mm/d"), [(_I(units="m"), [["sum", True]]), (_I(units="m"), [["avg"]])], early=True),
    # static link with unset time on both sides
    _case(_I(time=None), [(_I(time=None), []), (_I(time=5), [])], static=True),
    # F22 (fixed): a static output never adopts the requester's time; the input keeps its own stated time
    _case(_I(time=None), [(_I(time=5), [])], static=True),
    _case(_I(time=None), [(_I(time=5), [["scale"]]), (_I(time=None), [])], static=True),
    _case(_I(time=7), [(_I(time=5), []), (_I(time=None), [])], static=True),
    # same mesh, same data shape, different data location (12 cells / 12 nodes): must be refused
    _case(_I(grid="T43c"), [(_I(grid="T43p"), [])]),
    _case(_I(grid="T43p"), [(_I(grid="T43c"), [["scale"]])], mode="comp"),
    _case(_I(grid="T43c"), [(_I(grid="T43c"), []), (_I(grid=None), [["avg"]])], mode="comp", prod_pos=1),
    # seeded g: open producer grid, push_infos in every _connect, late second consumer with a conflicting grid
    _relay_case(_I(grid=None), [(_I(grid="U43"), [])], (_I(time=None, grid=None, units=None), [], None, {}),
                [(_I(grid="U43s"), [])], "bwd", order=["P", "S0", "R", "F0"], push_every=True),
    # seeded h: complete transfer rule followed by overriding FromValue rules (forward and backward)
    _relay_case(_I(units="m", k1=5), [], (_I(units=None, k1=None), [], "m/s", {"k1": 9}), [(_I(units=None), [])], "fwd"),
    _relay_case(_I(units=None), [], (_I(grid=None, units=None), [], "m/s", {}), [(_I(units="m"), [])], "bwd"),
    # seeded k: the very same mask array object on both ends, grids compatible but the y axis runs the other way
    {**_case(_I(mask=[[True, False], [False, False], [False, True]]),
             [(_I(grid="U43f", mask=[[True, False], [False, False], [False, True]]), [])]), "share_masks": True},
    {**_case(_I(mask=[[True, True], [False, False], [False, False]]),
             [(_I(grid="U43f", mask=[[True, True], [False, False], [False, False]]), [])], mode="comp"), "share_masks": True},
    # seeded m: same axes, two project-specific CRS without EPSG code / CRS on one end only: other places, refused
    _case(_I(grid="U43A"), [(_I(grid="U43B"), [])], mode="comp"),
    _case(_I(grid="T43A"), [(_I(grid="T43B"), [["scale"]])]),
    _case(_I(grid="U43"), [(_I(grid="U43A"), [])]),
    _case(_I(grid="U43A"), [(_I(grid="U43Af"), []), (_I(grid=None), [])], mode="comp", prod_pos=2),
    # seeded o: same shape, axes differ along ONE direction only (shift along y / spacing along x / shift along z)
    _case(_I(grid="U43"), [(_I(grid="U43y"), [])], mode="comp"),
    _case(_I(grid="U43sx"), [(_I(grid="U43"), [["scale"]])]),
    _case(_I(grid=None), [(_I(grid="U43"), []), (_I(grid="U43x"), [])]),
    _case(_I(grid="U432"), [(_I(grid="U432z"), [])]),
    # producer info never pushed
    _case(None, [(_I(), [])]),
]


def _gen_relay_case(rng):
    def simple_mask(sp, p_unset):
        sp["mask"] = None if rng.random() < p_unset else "FLEX"
        return sp

    fwd = rng.random() < 0.5
    pool = ["U43", "U43f", "U43r", "U43s", "U53", "T43c", "T43p", "N0", "N3"]
    out = simple_mask(_gen_info(rng, pool), 0.0)
    if rng.random() < 0.4:
        out["grid"] = None
    side = []
    for _ in range(rng.choice([0, 1, 1, 2])):
        ci = simple_mask(_gen_info(rng, pool, ref=out, conflict=0.08), 0.3)
        side.append((ci, rng.choice([[], [], [["scale"]], [["avg"]]])))
    ovu = rng.choice([None, None, "m", "km", "m/s", "s", ""])
    ovm = rng.choice([{}, {}, {"k1": 9}, {"k2": 4}])
    rchain = rng.choice([[], [], [["scale"]]])
    if fwd:
        rinfo = simple_mask(_gen_info(rng, pool, ref=out, conflict=0.05), 0.3)
        # what the relay's output will (roughly) state, to generate mostly agreeing far consumers
        guess = {"time": rinfo["time"] if rinfo["time"] is not None else out["time"],
                 "grid": rinfo["grid"] or out["grid"], "mask": "FLEX",
                 "units": ovu if ovu is not None else (rinfo["units"] if rinfo["units"] is not None else out["units"]),
                 "meta": {}}
    else:
        rinfo = simple_mask(_gen_info(rng, pool, ref=out, conflict=0.05), 0.0)
        for f, pr in (("grid", 0.6), ("units", 0.5), ("time", 0.4)):
            if rng.random() < pr:
                rinfo[f] = None
        guess = rinfo
    far = []
    for _ in range(rng.choice([1, 1, 2])):
        ci = simple_mask(_gen_info(rng, pool, ref=guess, conflict=0.08), 0.3)
        far.append((ci, rng.choice([[], [], [["scale"]]])))
    case = _relay_case(out, side, (rinfo, rchain, ovu, ovm), far, "fwd" if fwd else "bwd", push_every=rng.random() < 0.5)
    rng.shuffle(case["order"])
    return case


def _relay_sweep(tier):
    cases = []
    k = 0
    # (g) producer with an open grid, a direct consumer and a consumer behind a relay that exchanges in a later
    # connect iteration; agreeing and conflicting grid requirements; every listing order
    for (ga, gb) in (("U43", "U43s"), ("U43", "U43f"), ("T43c", "T43p"), ("U43", "U53"), ("U43", "U43")):
        for direction in ("bwd", "fwd"):
            for every in (True, False):
                for order in itertools.permutations(["P", "S0", "R", "F0"]):
                    k += 1
                    if tier == "quick" and k % 2:
                        continue
                    rinfo = _I(time=None, grid=None, units=None) if direction == "bwd" else _I(grid=None, units=None)
                    cases.append(_relay_case(_I(grid=None), [(_I(grid=ga), [])], (rinfo, [], None, {}),
                                             [(_I(grid=gb), [])], direction, order=list(order), push_every=every))
    # (h) complete transfer rule followed by FromValue overrides, open / stated units on the other link
    for direction in ("fwd", "bwd"):
        for ovu in (None, "m/s", "km"):
            for ovm in ({}, {"k1": 9}):
                for pu in (None, "m", "m/s"):
                    for fu in (None, "m", "km/h"):
                        for order in itertools.permutations(["P", "R", "F0"]):
                            k += 1
                            if tier == "quick" and k % 3:
                                continue
                            rinfo = _I(units=None, k1=None) if direction == "fwd" else _I(grid=None, units=None)
                            cases.append(_relay_case(_I(units=pu, k1=5), [], (rinfo, [], ovu, ovm),
                                                     [(_I(units=fu), [])], direction, order=list(order),
                                                     push_every=(k % 2 == 0)))
    return cases


MASK_KINDS = ["A", "B", "Z", "nomask", "FLEX", "NONE", None]


def _mask_kind(kind, gname):
    if kind in ("A", "B", "Z"):
        return mask_in_layout(gname or "U43", kind)
    return kind


def generate(rng, tier):
    n = 1500 if tier == "quick" else 40000
    cases = [dict(c) for c in CORPUS]
    # systematic part: every set/unset combination of the four fields on both sides of a direct link
    for bits in itertools.product([0, 1], repeat=8):
        if tier == "quick" and (sum(bits) % 2 == 1) and bits[3] == bits[7]:
            continue
        o = _I(time=0 if bits[0] else None, grid="U43" if bits[1] else None, units="m" if bits[2] else None,
               mask="FLEX" if bits[3] else None, k1=5)
        c = _I(time=0 if bits[4] else None, grid="U43f" if bits[5] else None, units="km" if bits[6] else None,
               mask="FLEX" if bits[7] else None, k2=None)
        cases.append(_case(o, [(c, [])]))
    # systematic part: all pairs of mask kinds x grid set/unset/other layout on a direct link
    k = 0
    for og in (None, "U43", "U43r"):
        for cg in (None, "U43", "U43f", "U43r"):
            for om in MASK_KINDS:
                for cm in MASK_KINDS:
                    k += 1
                    if tier == "quick" and k % 3 != 0:
                        continue
                    o = _I(grid=og, mask=_mask_kind(om, og))
                    c = _I(grid=cg, mask=_mask_kind(cm, cg))
                    cases.append(_case(o, [(c, [["scale"]] if k % 2 else [])]))
    # systematic part: grids of one mesh that differ only in the data location, both directions, direct / behind
    # an adapter / with a second (compatible) consumer in both orders, bare objects and Composition.connect()
    # systematic part: identical geometry numbers, different coordinate reference systems (custom without EPSG
    # code / registered / none): other places on the globe, must be refused; same CRS (any layout) must connect
    for (a, b) in CRS_PAIRS + CRS_SAME:
        for chain in ([], [["scale"]]):
            for mode in ("bare", "comp"):
                cases.append(_case(_I(grid=a), [(_I(grid=b), chain)], mode=mode, prod_pos=len(chain)))
        cases.append(_case(_I(grid=a), [(_I(grid=a), []), (_I(grid=b), [["avg"]])], order=[1, 0] if len(a) % 2 else [0, 1]))
        cases.append(_case(_I(grid=None), [(_I(grid=a), []), (_I(grid=b), [])]))
        for down in (False, True):
            cases.append({"mode": "accepts", "self": _I(grid=a), "inc": _I(grid=b), "down": down})
    # systematic part: structured grids of equal shape whose axes differ along exactly one direction (shift or
    # spacing), along every direction, or not at all (other class / layout): refused unless ALL axes agree
    for (a, b) in AXIS_PAIRS:
        for chain in ([], [["scale"]]):
            for mode in ("bare", "comp"):
                cases.append(_case(_I(grid=a), [(_I(grid=b), chain)], mode=mode, prod_pos=len(chain)))
        cases.append(_case(_I(grid=None), [(_I(grid=a), []), (_I(grid=b), [["avg"]])]))   # first consumer fixes the grid
        cases.append(_case(_I(grid=None), [(_I(grid=a), []), (_I(grid=b), [])], mode="comp", prod_pos=1, order=[1, 0]))
        cases.append(_case(_I(grid=a), [(_I(grid=None), [["regrid", None, b, None]])]))   # regridding onto it is fine
        cases.append(_case(_I(grid=a), [(_I(grid=b), [["regrid", None, a, None]])]))      # target grid set, specs differ
        for down in (False, True):
            cases.append({"mode": "accepts", "self": _I(grid=a), "inc": _I(grid=b), "down": down})
    for (a, b) in LOCATION_PAIRS:
        for chain in ([], [["scale"]], [["avg"]], [["sum", False]]):
            for mode in ("bare", "comp"):
                cases.append(_case(_I(grid=a), [(_I(grid=b), chain)], mode=mode, prod_pos=len(chain) % 2))
                cases.append(_case(_I(grid=a), [(_I(grid=a, units="km"), []), (_I(grid=b), chain)], mode=mode,
                                   order=[0, 1] if chain else [1, 0]))
        cases.append(_case(_I(grid=None), [(_I(grid=a), []), (_I(grid=b), [])]))          # first requester decides
        cases.append(_case(_I(grid=a), [(_I(grid=None), [["regrid", None, b, None]])]))   # regrid onto the other location: fine
        for down in (False, True):
            cases.append({"mode": "accepts", "self": _I(grid=a), "inc": _I(grid=b), "down": down})
    for i in range(n):
        cases.append(_gen_case(rng, i))
    # ONE mask array object given to both ends / to all consumers, on compatible grids of equal data shape whose
    # layouts are equal or differ; masks symmetric / not symmetric under the layout change.  Accepted iff the two
    # masks denote the same cells.
    shared = []
    sym32, asym32 = [[True, True], [False, False], [False, False]], [[True, False], [False, False], [False, True]]
    sym23, asym23 = [[True, False, False], [True, False, False]], [[True, False, False], [False, False, True]]
    pairs = [("U43", "U43f", sym32, asym32), ("U43f", "U43", sym32, asym32), ("U43", "R43", sym32, asym32),
             ("U43", "U43", sym32, asym32), ("R43", "U43f", sym32, asym32),
             ("U43r", "U43rf", sym23, asym23), ("U43rf", "U43r", sym23, asym23),
             ("U4", "U4f", [True, False, True], [True, False, False]), ("U4f", "U4", [False, True, False], [False, True, True])]
    for (ga, gb, sym, asym) in pairs:
        zero = (np.zeros(np.shape(sym), dtype=bool)).tolist()
        for m in (sym, asym, zero):
            for chain in ([], [["scale"]]):
                for mode in ("bare", "comp"):
                    shared.append(_case(_I(grid=ga, mask=m), [(_I(grid=gb, mask=m), chain)], mode=mode, prod_pos=len(chain)))
            for order in ([0, 1], [1, 0]):
                shared.append(_case(_I(grid=ga, mask=m), [(_I(grid=ga, mask=m), []), (_I(grid=gb, mask=m), [["avg"]])], order=order))
            shared.append(_case(_I(grid=None, mask=m), [(_I(grid=ga, mask=m), []), (_I(grid=gb, mask=m), [])]))
            shared.append(_case(_I(grid=ga, mask=m), [(_I(grid=None, mask=m), [])]))
            for down in (False, True):
                shared.append({"mode": "accepts", "self": _I(grid=ga, mask=m), "inc": _I(grid=gb, mask=m), "down": down})
    for c in shared:
        c["share_masks"] = True
    cases += shared
    # real components with a ConnectHelper: push_infos in every _connect call, info transfer rules
    cases += _relay_sweep(tier)
    for i in range(n // 4):
        cases.append(_gen_relay_case(rng))
    # the public Info.accepts in both directions on random pairs (incl. pairs no exchange can reach)
    for i in range(n // 3):
        a = _gen_info(rng, ALL_GRIDS)
        a["mask"] = _gen_mask(rng, a["grid"], p_unset=0.1)
        b = _gen_info(rng, ALL_GRIDS, ref=a, conflict=0.3)
        cases.append({"mode": "accepts", "self": a, "inc": b, "down": rng.random() < 0.5, "share_masks": i % 2 == 0})
    return cases


def distribution(cases, obss):
    acc = [c for c in cases if c["mode"] == "accepts"]
    rel = [(c, o) for c, o in zip(cases, obss) if c["mode"] == "relay"]
    cases, obss = zip(*[(c, o) for c, o in zip(cases, obss) if c["mode"] not in ("accepts", "relay")])
    d = {
        "direct_accepts_calls": len(acc),
        "relay_compositions": {
            "total": len(rel), "dir": dict(Counter(c["dir"] for c, _ in rel)),
            "push_infos_every_connect": sum(1 for c, _ in rel if c["push_every"]),
            "with_override_rules": sum(1 for c, _ in rel if c["relay"]["ovu"] is not None or c["relay"]["ovm"]),
            "outcome": dict(Counter(o.get("outcome", "harness_error") for _, o in rel)),
        },
        "mode": dict(Counter(c["mode"] for c in cases)),
        "fanout": dict(Counter(len(c["consumers"]) for c in cases)),
        "outcome": dict(Counter(o.get("outcome", "harness_error") for o in obss)),
        "adapters": dict(Counter(a[0] for c in cases for k in c["consumers"] for a in k["chain"])),
        "chain_len": dict(Counter(len(k["chain"]) for c in cases for k in c["consumers"])),
        "producer_unset": dict(Counter(f for c in cases if c["out"] for f in ("time", "grid", "units", "mask") if c["out"][f] is None)),
        "consumer_unset": dict(Counter(f for c in cases for k in c["consumers"] for f in ("time", "grid", "units", "mask") if k["info"][f] is None)),
        "consumer_mask_kind": dict(Counter(("bits" if isinstance(k["info"]["mask"], list) else str(k["info"]["mask"]))
                                           for c in cases for k in c["consumers"])),
        "static": sum(1 for c in cases if c["static"]),
        "shared_mask_objects": sum(1 for c in cases if c.get("share_masks")),
        "early_exchange": sum(1 for c in cases if c.get("early")),
    }
    return d


def shrink_candidates(case):
    if case["mode"] == "accepts":
        return
    if case["mode"] == "relay":
        for key in ("side", "far"):
            lst = case[key]
            for i in range(len(lst)):
                if key == "far" and len(lst) == 1:
                    continue
                name = ("S" if key == "side" else "F")
                keep = lst[:i] + lst[i + 1:]
                order = [n for n in case["order"] if n != f"{name}{len(lst) - 1}"]
                yield {**case, key: keep, "order": order}
        r = case["relay"]
        if r["ovm"]:
            yield {**case, "relay": {**r, "ovm": {}}}
        if r["chain"]:
            yield {**case, "relay": {**r, "chain": []}}
        for key in ("side", "far"):
            for i, c in enumerate(case[key]):
                if c["chain"]:
                    yield {**case, key: case[key][:i] + [{"info": c["info"], "chain": []}] + case[key][i + 1:]}
        if case["push_every"]:
            yield {**case, "push_every": False}
        return
    cs = case["consumers"]
    if len(cs) > 1:
        for i in range(len(cs)):
            keep = [k for k in range(len(cs)) if k != i]
            remap = {k: j for j, k in enumerate(keep)}
            yield {**case, "consumers": [cs[k] for k in keep], "order": [remap[k] for k in case["order"] if k != i],
                   "prod_pos": min(case.get("prod_pos", 0), len(keep))}
    for i, c in enumerate(cs):
        for j in range(len(c["chain"])):
            nc = {"info": c["info"], "chain": c["chain"][:j] + c["chain"][j + 1:]}
            yield {**case, "consumers": cs[:i] + [nc] + cs[i + 1:]}
    if case.get("early"):
        yield {**case, "early": False}
    if case.get("share_masks"):
        yield {**case, "share_masks": False}
    if case["mode"] == "comp":
        yield {**case, "mode": "bare"}
    for i, c in enumerate(cs):
        for k in list(c["info"]["meta"]):
            ni = {**c["info"], "meta": {a: b for a, b in c["info"]["meta"].items() if a != k}}
            yield {**case, "consumers": cs[:i] + [{"info": ni, "chain": c["chain"]}] + cs[i + 1:]}
    if case["out"]:
        for k in list(case["out"]["meta"]):
            yield {**case, "out": {**case["out"], "meta": {a: b for a, b in case["out"]["meta"].items() if a != k}}}
