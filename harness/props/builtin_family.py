"""Compositions of finam's OWN components (generators, callback component, time trigger, debug consumer) with timedelta
and CALENDAR steps, month-end starts: run by the real driver and judged by the property monitor only (there is no Coq
model of these classes).  Used by C01 / C02 / C03: such a composition is valid, so its run must return, with every
component at or beyond the end time, without a data / time error."""


def gen_builtin(rng):
    if rng.random() < 0.5:
        # month-end starts from which "one month at a time" and "n months from the start" drift apart (Jan 30/31,
        # Mar 31, Aug 31, Jan 29/30 of a non-leap year), monthly callback component, fine source on the day grid
        day0 = rng.choice([29, 30, 90, 242, 364 + 29, 364 + 30, 364 + 31])
        gen_step = rng.choice([["d", 1], ["d", 1], ["h", 12], ["h", 6]])
        mid_step = ["m", 1]
        cons_step = rng.choice([["d", 1], ["d", 5], ["m", 1], ["d", 31]])
        span = 31 * rng.choice([3, 4, 5]) + rng.choice([0, 5, 11])
    else:
        day0 = rng.choice([0, 14, 28, 29, 30, 59, 89, 364 + 29, 364 + 30])   # days after 2000-01-01
        gen_step = rng.choice([["d", 1], ["d", 1], ["h", 12], ["d", 2]])
        mid_step = rng.choice([["m", 1], ["m", 1], ["d", 30], ["d", 7], ["m", 2], ["y", 1]])
        cons_step = rng.choice([["d", 1], ["d", 5], ["m", 1], ["d", 31]])
        span = {"m": 31 * 3, "y": 366 + 40, "d": 40}[mid_step[0]] + rng.choice([0, 5, 11])
    order = rng.sample([0, 1, 2], 3)
    return {"builtin": {"day0": day0, "gen": gen_step, "mid": mid_step, "cons": cons_step, "end_days": span,
                        "order": order, "mid_initial_pull": rng.random() < 0.5, "trigger": rng.random() < 0.3}}


def _delta(spec):
    from datetime import timedelta
    from dateutil.relativedelta import relativedelta
    k, n = spec
    return {"d": lambda: timedelta(days=n), "h": lambda: timedelta(hours=n), "m": lambda: relativedelta(months=n),
            "y": lambda: relativedelta(years=n)}[k]()


def run_builtin(b):
    from datetime import datetime, timedelta
    import finam as fm
    from ..fin import err_class
    start = datetime(2000, 1, 1) + timedelta(days=b["day0"])
    end = start + timedelta(days=b["end_days"])
    info = lambda: fm.Info(time=None, grid=fm.NoGrid(), units="")  # noqa: E731
    gen = fm.components.CallbackGenerator({"Out": (lambda t: float(t.toordinal()), info())}, start=start, step=_delta(b["gen"]))
    seen = []

    def cb(inputs, t):
        seen.append(t)
        v = inputs["In"] if inputs is not None else None
        return {"Out": (float(fm.data.get_magnitude(v).reshape(-1)[0]) if v is not None else 0.0) + 1.0}

    mid = fm.components.CallbackComponent(inputs={"In": info()}, outputs={"Out": info()}, callback=cb, start=start,
                                          step=_delta(b["mid"]), initial_pull=b["mid_initial_pull"])
    cons = fm.components.DebugConsumer({"In": info()}, start=start, step=_delta(b["cons"]))
    comps = [gen, mid, cons]
    if b.get("trigger"):
        trig = fm.components.TimeTrigger(in_info=info(), start=start, step=_delta(b["gen"]))
        comps.append(trig)
    listed = [comps[i] for i in b["order"]] + comps[3:]
    outcome, msg = "ok", ""
    try:
        composition = fm.Composition(listed)
        if b.get("trigger"):
            gen.outputs["Out"] >> trig.inputs["In"]
            trig.outputs["Out"] >> mid.inputs["In"]
        else:
            gen.outputs["Out"] >> mid.inputs["In"]
        mid.outputs["Out"] >> cons.inputs["In"]
        composition.connect(start)
        composition.run(end_time=end)
    except Exception as e:  # noqa
        outcome, msg = err_class(e), str(e)[:300]
    times = []
    for c in comps:
        try:
            times.append(c.time.isoformat())
        except Exception:  # noqa
            times.append(None)
    return {"builtin": True, "outcome": outcome, "msg": msg, "end": end.isoformat(), "times": times,
            "status": [str(c.status).split(".")[-1] for c in comps],
            "mid_times": [t.isoformat() for t in seen], "mid_monotone": all(a < b_ for a, b_ in zip(seen, seen[1:]))}



def monitor_builtin(case, obs):
    if obs["outcome"] != "ok":
        return f"run of a valid composition of finam's own components ended with {obs['outcome']}: {obs['msg']}"
    for name, t in zip(["generator", "callback component", "consumer", "trigger"], obs["times"]):
        if t is None or t < obs["end"]:
            return f"run returned with the {name} at {t} < end time {obs['end']}"
    if any(s != "FINALIZED" for s in obs["status"]):
        return f"final statuses {obs['status']}"
    if not obs["mid_monotone"]:
        return "the callback component's time did not increase strictly"
    return None
