"""C18 — masked data: compression round-trips and mask rules are as documented.

Correspondence: the real helpers finam.data.tools.to_compressed / from_compressed / prepare /
masks_compatible, Info.accepts and a real metadata exchange over Output >> Input (bare slots and
inside a Composition) are run on generated shapes / orders / masks / grid layouts; the Coq model
FV.Mask is evaluated on the same inputs by vm_compute and must give the same observations.
The monitor re-computes the documented behaviour with plain Python index arithmetic (no numpy
ravel/reshape/flip, no finam code) and is the property predicate used to find failing inputs.
"""
import itertools
from datetime import timedelta

import numpy as np

from ..coqgen import B, C, L, N, NONE, P, Some, Z
from ..fin import fm, T, err_class

ID = "C18"
COQ_IMPORTS = "From FV Require Import Base Arr Mask."
COQ_CHECK = "c18_check"
COQ_MODEL_OBS = "c18_model_show"
RULE = (
    "sweep of ALL masks of all shapes up to 2x2x2, 3x2/2x3 and 1-D up to 4 (thorough: also 3x2x2, 4x2, 2x4, "
    "1-D up to 6 and random larger shapes) x both orders x masked-array / separate-mask call form x plain / "
    "pint-wrapped, the explicit mask written as bool / int / uint8 ndarray or nested list of bools / ints (plus a "
    "dedicated family of non-bool separate masks incl. larger fields), further mask arguments (None, FLEX, NONE, nomask) with and without extra kwargs; prepare with "
    "flat / shaped / time-axis payloads on C and F ordered grids, also under infos that carry BOTH a fixed mask and a "
    "declared CF missing_value / _FillValue with payload cells holding exactly that value (none / exactly M / strict "
    "subset of M / one cell outside M / M plus one / random / all); all pairs of mask specifications (unset, FLEX, "
    "NONE, nomask, all-false, same physical mask, raw-equal bits, one-bit-different, full) x grid layouts (unset, "
    "NoGrid, uniform with axes_reversed / axes_increase combinations, cell and point data) through Info.accepts "
    "(both directions), masks_compatible and a real Output >> Input exchange (bare and via Composition.connect); "
    "SEQUENCES on one re-used Info object (prepare flat/shaped/time-axis interleaved with info.grid = other order / "
    "layout, info.mask = ..., copy_with, copy.copy, Info.accepts): every prepare must equal the result under a fresh "
    "Info with the current fields and the model evaluated on the current fields; REFUSED assignments (info.mask = / "
    "copy_with(mask=) with a mask of the wrong shape: transposed, flat, with time axis, other size) inside sequences and "
    "on one side before an accepts / exchange: must raise FinamMetaDataError and leave the info exactly as it was; "
    "OBJECT SHARING: the very same mask "
    "ndarray on both sides (one array passed to two Infos, copy_with(grid=other layout), copy.copy + grid assignment) "
    "on square and non-square grids whose layouts differ in axes_increase / axes_reversed; "
    "non-trivial = partial mask (neither empty nor full) for round-trip/prepare cases, two explicit masks on "
    "different layouts for acceptance cases; distinct by canonical case hash"
)
TRUSTED = [
    "numpy arrays are built by the driver from C-order value lists (np.array(...).reshape) and read back with "
    "ndarray.tolist(); pint wrapping via fm.UNITS.Quantity",
]
ASSUMPTIONS = [
    "values are distinct integers (position identifies the value); entries under a mask are not observed "
    "(uninitialised memory in from_compressed)",
    "domain: from_compressed receives exactly as many values as there are unmasked entries; Info objects are "
    "built by the Info constructor (mask shape = grid data shape); Info(mask=None) is not prepared",
    "exchange cases use grids that are compatible layouts of one grid (or unset / NoGrid); grid compatibility "
    "itself is C15's subject; a side without grid carries its mask in the other side's data shape (it adopts "
    "that grid; otherwise the Info constructor refuses the mask)",
]
CASE_TIMEOUT = 30

# ----------------------------------------------------------------------------------------------
# pure Python reference helpers (monitor side: no numpy layout functions, no finam)
# ----------------------------------------------------------------------------------------------


def _size(shape):
    n = 1
    for s in shape:
        n *= s
    return n


def _indices(shape, order):
    """all multi-indices in memory order"""
    if order == "C":
        return [tuple(i) for i in itertools.product(*[range(n) for n in shape])]
    return [tuple(reversed(i)) for i in itertools.product(*[range(n) for n in reversed(shape)])]


def _cflat(shape, idx):
    k = 0
    for n, i in zip(shape, idx):
        k = k * n + i
    return k


def _get(shape, clist, idx):
    return clist[_cflat(shape, idx)]


def _canon(ms, g):
    """dict physical index -> bit, canonical shape; ms = {"shape","bits"}; g = grid json or None"""
    shape, bits = tuple(ms["shape"]), ms["bits"]
    if g is None or g["kind"] == "nogrid":
        return {idx: _get(shape, bits, idx) for idx in _indices(shape, "C")}, shape
    rev = g["rev"] and len(shape) > 1
    cshape = tuple(reversed(shape)) if rev else shape
    out = {}
    for cidx in _indices(cshape, "C"):
        # canonical index -> index in the transposed array (undo flips) -> own index (undo transpose)
        t = tuple((i if inc else n - 1 - i) for i, n, inc in zip(cidx, cshape, g["inc"]))
        own = tuple(reversed(t)) if rev else t
        out[cidx] = _get(shape, bits, own)
    return out, cshape


def _is_bits(m):
    return isinstance(m, dict)


def _fixed(m):
    return m == "nomask" or _is_bits(m)


def _doc_accepts(consumer, producer, cg, pg):
    """the documented acceptance relation (DESIGN 7, C18)"""
    if producer == "unset":
        return False
    if consumer == "flex":
        return True
    if consumer == "none":
        return producer == "none"
    if consumer == "unset":
        return False  # masks_compatible itself; Info.accepts never asks (its own mask is unset)
    if not _fixed(producer):
        return False
    if consumer == "nomask" and producer == "nomask":
        return True
    if consumer == "nomask":
        return not any(producer["bits"])
    if producer == "nomask":
        return not any(consumer["bits"])
    if cg is None or pg is None:
        return consumer["shape"] == producer["shape"] and consumer["bits"] == producer["bits"]
    c, cs = _canon(consumer, cg)
    p, ps = _canon(producer, pg)
    return cs == ps and c == p


# ----------------------------------------------------------------------------------------------
# generator
# ----------------------------------------------------------------------------------------------
QUICK_SHAPES = [[1], [2], [3], [4], [1, 1], [1, 2], [2, 1], [2, 2], [3, 2], [2, 3],
                [1, 1, 1], [1, 1, 2], [1, 2, 1], [2, 1, 1], [1, 2, 2], [2, 1, 2], [2, 2, 1], [2, 2, 2]]
THOROUGH_SHAPES = [[5], [6], [4, 2], [2, 4], [3, 3], [3, 2, 2], [2, 3, 2], [2, 2, 3]]


def _vals(rng, n):
    base = rng.choice([0, 1, 10, 100])
    v = list(range(base, base + n))
    if rng.random() < 0.5:
        rng.shuffle(v)
    return v


def _bits_of(k, n):
    return [bool((k >> i) & 1) for i in range(n)]


MFORMS = ["bool", "int", "uint8", "list_bool", "list_int"]   # how an explicit mask is written down


def _round(shape, order, vals, own, arg, kw=False, quant=False, argform="kw", mform="bool"):
    return {"k": "round", "shape": shape, "order": order, "vals": vals, "own": own, "arg": arg, "kw": kw,
            "quant": quant, "argform": argform, "mform": mform}


def _gen_round_sweep(rng, shapes, full):
    cases = []
    for shape in shapes:
        n = _size(shape)
        for k in range(2 ** n):
            bits = _bits_of(k, n)
            for order in "CF":
                combos = [(f, q) for f in ("own", "arg") for q in (False, True)]
                if not full:
                    combos = [combos[(k + (order == "F")) % 4], combos[(k + 2 + (order == "F")) % 4]] if n <= 6 else \
                             [combos[(k + (order == "F")) % 4]]
                for ci, (form, quant) in enumerate(combos):
                    vals = _vals(rng, n)
                    # the same mask written as bool / int / uint8 array or nested list (each mask sees 4 of the 5)
                    mform = MFORMS[(k + 2 * (order == "F") + ci) % len(MFORMS)]
                    if form == "own":
                        cases.append(_round(shape, order, vals, bits, "unset", quant=quant, mform=mform))
                    else:
                        cases.append(_round(shape, order, vals, None, {"shape": shape, "bits": bits}, quant=quant,
                                            mform=mform))
    return cases


def _gen_round_nonbool(rng, ncases):
    """unmasked (plain / quantified) data + separately passed mask that is a valid mask but not a bool ndarray"""
    cases = []
    shapes = QUICK_SHAPES + THOROUGH_SHAPES + [[5], [7], [1, 5], [4, 1, 3], [16, 17]]
    for j in range(ncases):
        shape = rng.choice(shapes)
        n = _size(shape)
        p = [0.0, 0.3, 0.5, 1.0, 0.3, 0.5][j % 6]
        bits = [rng.random() < p for _ in range(n)]
        cases.append(_round(shape, "CF"[j % 2], _vals(rng, n), None, {"shape": shape, "bits": bits},
                            kw=rng.random() < 0.15, quant=(j // 2) % 2 == 1, mform=MFORMS[1 + j % 4]))
    return cases


def _gen_round_misc(rng, nper):
    """other mask arguments, kwargs, own mask + (ignored) argument"""
    cases = []
    shapes = QUICK_SHAPES + THOROUGH_SHAPES
    for _ in range(nper):
        shape = rng.choice(shapes)
        n = _size(shape)
        order = rng.choice("CF")
        bits = [rng.random() < 0.4 for _ in range(n)]
        own = rng.choice([None, None, None, "nomask", bits])
        arg = rng.choice(["unset", "flex", "none", "nomask", {"shape": shape, "bits": [rng.random() < 0.5 for _ in range(n)]}])
        cases.append(_round(shape, order, _vals(rng, n), own, arg, kw=rng.random() < 0.4, quant=rng.random() < 0.4,
                            argform=rng.choice(["kw", "omit"]) if arg == "unset" else "kw", mform=rng.choice(MFORMS)))
    return cases


def _gen_round_random(rng, ncases):
    cases = []
    for _ in range(ncases):
        rank = rng.choice([1, 2, 2, 3, 3])
        shape = [rng.randint(1, 5) for _ in range(rank)]
        n = _size(shape)
        p = rng.choice([0.1, 0.3, 0.5, 0.8])
        bits = [rng.random() < p for _ in range(n)]
        form = rng.choice(["own", "arg"])
        cases.append(_round(shape, rng.choice("CF"), _vals(rng, n), bits if form == "own" else None,
                            "unset" if form == "own" else {"shape": shape, "bits": bits}, kw=rng.random() < 0.2,
                            quant=rng.random() < 0.5, mform=rng.choice(MFORMS)))
    return cases


def _gen_prepare(rng, shapes, per_shape):
    cases = []
    for shape in shapes:
        n = _size(shape)
        ks = list(range(2 ** n)) if 2 ** n <= per_shape else [0, 2 ** n - 1] + [rng.randrange(2 ** n) for _ in range(per_shape - 2)]
        for j, k in enumerate(ks):
            bits = _bits_of(k, n)
            for order in "CF":
                for form in ("flat", "shaped", "timed"):
                    gridk = ["cells", "points", "cells_rev", "nogrid"][(j + (order == "F") + len(form)) % 4]
                    if gridk == "nogrid" and (form == "flat" or order == "F"):
                        gridk = "cells"
                    if gridk == "points" and min(shape) < 2:
                        gridk = "cells"
                    r = rng.random()
                    own = None if r < 0.8 else ("nomask" if r < 0.9 else [rng.random() < 0.5 for _ in range(n)])
                    im = {"shape": shape, "bits": bits}
                    if rng.random() < 0.12:
                        im = rng.choice(["nomask", "flex", "none"])
                    cases.append({"k": "prepare", "shape": shape, "order": order, "form": form, "vals": _vals(rng, n),
                                  "own": own, "im": im, "grid": gridk, "quant": rng.random() < 0.4})
    return cases


MISSING_PATTERNS = ["none", "exactM", "subset", "outside", "Mplus1", "random", "all"]
MISSING_KEYS = ["missing_value", "_FillValue", "both"]


def _flag_cells(rng, bits, pattern):
    """C-order positions (grid layout) of the cells that hold the declared missing value"""
    n = len(bits)
    M = [i for i in range(n) if bits[i]]
    U = [i for i in range(n) if not bits[i]]
    if pattern == "exactM":
        return list(M)
    if pattern == "subset":
        return rng.sample(M, rng.randint(1, len(M) - 1)) if len(M) >= 2 else list(M[:1])
    if pattern == "outside":
        return [rng.choice(U)] if U else []
    if pattern == "Mplus1":
        return M + ([rng.choice(U)] if U else [])
    if pattern == "random":
        return [i for i in range(n) if rng.random() < 0.4]
    if pattern == "all":
        return list(range(n))
    return []


def _with_missing(rng, case, pattern, key=None, value=None):
    """declare a CF missing value on the info and put exactly that value into the flagged cells of the payload"""
    shape, n = case["shape"], _size(case["shape"])
    im = case["im"]
    bits = im["bits"] if _is_bits(im) else [False] * n
    value = value if value is not None else rng.choice([-9999, -1, 0, 999])
    cells = _flag_cells(rng, bits, pattern)
    vals = [v if v != value else value + 12345 for v in case["vals"]]      # no accidental hits
    cidx = _indices(shape, "C")
    pos = {idx: k for k, idx in enumerate(_indices(shape, case["order"]))} if case["form"] == "flat" else None
    for ci in cells:
        vals[pos[cidx[ci]] if pos else ci] = value
    return dict(case, vals=vals, missing={"key": key or rng.choice(MISSING_KEYS), "value": value,
                                          "pattern": pattern, "cells": sorted(cells)})


def _gen_prepare_missing(rng, shapes, per_shape):
    """infos carrying BOTH a fixed mask and a declared missing_value / _FillValue; unmasked payloads in which
    some cells hold exactly that value: the result must still carry exactly the info's mask"""
    cases = []
    j = 0
    for shape in shapes:
        n = _size(shape)
        for _ in range(per_shape):
            k = rng.randrange(1, 2 ** n - 1) if n > 1 else rng.randrange(2)
            bits = _bits_of(k, n)
            for pattern in MISSING_PATTERNS:
                j += 1
                order = "CF"[j % 2]
                form = ("flat", "shaped", "timed")[(j // 2) % 3]
                gridk = "cells" if (j % 5 or min(shape) < 2) else "points"
                if j % 7 == 0 and form != "flat" and order == "C":
                    gridk = "nogrid"
                im = {"shape": shape, "bits": bits}
                if j % 11 == 0:
                    im = ["nomask", "flex", "none"][(j // 11) % 3]
                base = {"k": "prepare", "shape": shape, "order": order, "form": form, "vals": _vals(rng, n),
                        "own": None, "im": im, "grid": gridk, "quant": (j // 3) % 2 == 1}
                cases.append(_with_missing(rng, base, pattern))
    return cases


LAYOUTS_2 = [{"kind": "uniform", "rev": r, "inc": [a, b], "loc": loc}
             for r in (False, True) for a in (True, False) for b in (True, False) for loc in ("points", "cells")]


def _layouts(rank, rng, k):
    out = []
    for _ in range(k):
        out.append({"kind": "uniform", "rev": rng.random() < 0.5, "inc": [rng.random() < 0.6 for _ in range(rank)],
                    "loc": rng.choice(["points", "cells"])})
    return out


def _mask_in_layout(dims, cbits, g):
    """bits (C order of the grid's data shape) of the physical mask cbits (C order over xyz dims)"""
    if g is None or g["kind"] == "nogrid":
        return {"shape": list(dims), "bits": list(cbits)}
    rev = g["rev"] and len(dims) > 1
    shape = tuple(reversed(dims)) if rev else tuple(dims)
    bits = []
    for own in _indices(shape, "C"):
        t = tuple(reversed(own)) if rev else own
        cidx = tuple((i if inc else n - 1 - i) for i, n, inc in zip(t, dims, g["inc"]))
        bits.append(_get(dims, cbits, cidx))
    return {"shape": list(shape), "bits": bits}


def _raw_in_layout(dims, cbits, g):
    """the same bit LIST laid over the layout's own data shape (a different physical mask in general)"""
    if g is None or g["kind"] == "nogrid":
        return {"shape": list(dims), "bits": list(cbits)}
    rev = g["rev"] and len(dims) > 1
    return {"shape": list(reversed(dims)) if rev else list(dims), "bits": list(cbits)}


DIMS = [[2], [3], [4], [2, 2], [2, 3], [3, 2], [2, 2, 2], [3, 2, 2]]


def _side_grid(rng, dims, family=None):
    """family: None = any grid; "nogrid" / "points" / "cells" = grids that are compatible with each other"""
    r = rng.random()
    if r < 0.12:
        return None
    if family == "nogrid" or (family is None and r < 0.24):
        return {"kind": "nogrid", "shape": list(dims)}
    return {"kind": "uniform", "rev": rng.random() < 0.5, "inc": [rng.random() < 0.6 for _ in dims],
            "loc": family or rng.choice(["points", "cells"])}


def _family(rng):
    return rng.choice(["nogrid", "points", "points", "cells"])


def _side_mask(rng, dims, cbits, g, kind):
    n = _size(dims)
    if kind in ("unset", "flex", "none", "nomask"):
        return kind
    if kind == "allfalse":
        return _mask_in_layout(dims, [False] * n, g)
    if kind == "full":
        return _mask_in_layout(dims, [True] * n, g)
    if kind == "same":
        return _mask_in_layout(dims, cbits, g)
    if kind == "raw":
        return _raw_in_layout(dims, cbits, g)
    if kind == "onebit":
        b = list(cbits)
        i = rng.randrange(n)
        b[i] = not b[i]
        return _mask_in_layout(dims, b, g)
    if kind == "otherdims":
        cands = [d for d in DIMS if d != list(dims)]
        same_rank = [d for d in cands if len(d) == len(dims)]
        d2 = rng.choice(same_rank if same_rank and rng.random() < 0.7 else cands)
        return {"shape": list(d2), "bits": [rng.random() < 0.5 for _ in range(_size(d2))]}
    raise ValueError(kind)


MASK_KINDS = ["unset", "flex", "none", "nomask", "allfalse", "same", "raw", "onebit", "full"]


def _gen_accept(rng, n_random, exchange_ratio=0.35):
    cases = []
    # all pairs of mask kinds x a few layouts
    for ka in MASK_KINDS:
        for kb in MASK_KINDS:
            for rep in range(3):
                dims = rng.choice(DIMS)
                cbits = [rng.random() < 0.4 for _ in range(_size(dims))]
                ga, gb = _side_grid(rng, dims), _side_grid(rng, dims)
                ma, mb = _side_mask(rng, dims, cbits, ga, ka), _side_mask(rng, dims, cbits, gb, kb)
                cases.append({"k": "accept", "sm": ma, "sg": ga, "im": mb, "ig": gb, "down": rep % 2 == 1,
                              "dims": dims})
                fam = _family(rng)
                ga, gb = _side_grid(rng, dims, fam), _side_grid(rng, dims, fam)
                # a side without grid adopts the other side's grid: its mask comes in that layout
                ma = _side_mask(rng, dims, cbits, ga if ga is not None else gb, ka)
                mb = _side_mask(rng, dims, cbits, gb if gb is not None else ga, kb)
                if not (ga is None and gb is None):
                    cases.append({"k": "exchange", "om": ma, "og": ga, "im": mb, "ig": gb, "dims": dims,
                                  "via": "bare" if rep else "comp"})
    for _ in range(n_random):
        dims = rng.choice(DIMS)
        n = _size(dims)
        cbits = [rng.random() < rng.choice([0.2, 0.5]) for _ in range(n)]
        ga, gb = _side_grid(rng, dims), _side_grid(rng, dims)
        fixedk = ["same", "same", "raw", "onebit", "allfalse", "nomask"]
        ka = rng.choice(fixedk if rng.random() < 0.7 else MASK_KINDS)
        kb = rng.choice(fixedk if rng.random() < 0.7 else MASK_KINDS)
        ma, mb = _side_mask(rng, dims, cbits, ga, ka), _side_mask(rng, dims, cbits, gb, kb)
        if rng.random() < exchange_ratio:
            fam = _family(rng)
            ga, gb = _side_grid(rng, dims, fam), _side_grid(rng, dims, fam)
            if ga is None and gb is None:
                gb = {"kind": "nogrid", "shape": list(dims)}
            ma = _side_mask(rng, dims, cbits, ga if ga is not None else gb, ka)
            mb = _side_mask(rng, dims, cbits, gb if gb is not None else ga, kb)
            cases.append({"k": "exchange", "om": ma, "og": ga, "im": mb, "ig": gb, "dims": dims,
                          "via": rng.choice(["bare", "bare", "comp"])})
        else:
            if rng.random() < 0.15:
                mb = _side_mask(rng, dims, cbits, gb, "otherdims")
                if gb is not None:
                    gb = {"kind": "nogrid", "shape": mb["shape"]}
            cases.append({"k": "accept", "sm": ma, "sg": ga, "im": mb, "ig": gb, "down": rng.random() < 0.5,
                          "dims": dims})
    return cases


def _gen_accept_sweep(dims_list):
    """every mask of small grids on every pair of layouts: same physical mask must be accepted,
    the raw-equal bit pattern only when it denotes the same physical mask"""
    cases = []
    for dims in dims_list:
        n = _size(dims)
        lay = [None, {"kind": "nogrid", "shape": list(dims)}] + [
            {"kind": "uniform", "rev": r, "inc": list(inc), "loc": "points"}
            for r in (False, True) for inc in itertools.product((True, False), repeat=len(dims))]
        j = 0
        for k in range(2 ** n):
            cbits = _bits_of(k, n)
            for ga in lay:
                for gb in lay:
                    j += 1
                    if ga is None and gb is None:
                        continue
                    kind = "same" if j % 2 else "raw"
                    ma = _mask_in_layout(dims, cbits, ga)
                    mb = _mask_in_layout(dims, cbits, gb) if kind == "same" else _raw_in_layout(dims, cbits, gb)
                    exch_ok = ga is None or gb is None or ga["kind"] == gb["kind"]
                    if j % 3 == 0 and exch_ok:
                        ma = _mask_in_layout(dims, cbits, ga if ga is not None else gb)
                        lb = gb if gb is not None else ga
                        mb = _mask_in_layout(dims, cbits, lb) if kind == "same" else _raw_in_layout(dims, cbits, lb)
                        cases.append({"k": "exchange", "om": ma, "og": ga, "im": mb, "ig": gb, "dims": dims, "via": "bare"})
                    else:
                        cases.append({"k": "accept", "sm": ma, "sg": ga, "im": mb, "ig": gb, "down": j % 4 < 2, "dims": dims})
    return cases


SHARE_DIMS = [[2, 2], [3, 3], [2, 2, 2], [2, 2], [3, 3], [2, 3], [3, 2], [3, 2, 2], [3]]
SHARE_MODES = ["same_obj", "copy_with", "copy"]


def _gen_shared(rng, ncases):
    """both infos carry the very same mask ndarray object (one array passed to two Infos, or one info derived
    from the other by copy_with(grid=...) / copy.copy + grid assignment) on compatible grids whose layouts
    differ: the decision must still follow the documented table (the model has no object identity)"""
    cases = []
    for j in range(ncases):
        dims = rng.choice(SHARE_DIMS)
        n = _size(dims)
        square = len(set(dims)) == 1
        loc = rng.choice(["points", "cells"])
        rev_a = rng.random() < 0.5
        rev_b = (rng.random() < 0.5) if square else rev_a   # raw sharing needs equal data shapes
        ga = {"kind": "uniform", "rev": rev_a, "inc": [rng.random() < 0.6 for _ in dims], "loc": loc}
        gb = {"kind": "uniform", "rev": rev_b, "inc": [rng.random() < 0.6 for _ in dims], "loc": loc}
        if j % 4 == 0:
            gb = dict(ga, inc=list(ga["inc"]))           # identical layout: sharing must be accepted
        if j % 9 == 0:
            gb = None if j % 2 else {"kind": "nogrid", "shape": list(dims)}
            if gb is not None:
                ga = dict(gb)
        r = rng.random()
        if r < 0.8:
            bits = [rng.random() < rng.choice([0.2, 0.5]) for _ in range(n)]
            ma = _raw_in_layout(dims, bits, ga if ga["kind"] == "uniform" else None)
            mb = {"shape": list(ma["shape"]), "bits": list(bits)}
        else:
            ma = mb = rng.choice(["nomask", "flex", "none"])
        share = rng.choice(SHARE_MODES)
        if j % 2 and gb is not None and not (ga["kind"] != gb["kind"]):
            cases.append({"k": "exchange", "om": ma, "og": ga, "im": mb, "ig": gb, "dims": dims,
                          "via": rng.choice(["bare", "bare", "comp"]), "share": share})
        else:
            cases.append({"k": "accept", "sm": ma, "sg": ga, "im": mb, "ig": gb, "down": rng.random() < 0.5,
                          "dims": dims, "share": share})
    return cases


SEQ_SHAPES = [[2, 2], [3, 2], [2, 3], [3, 3], [2, 3], [2, 2, 2], [3, 2, 2], [2, 3, 2], [3], [4, 3], [2, 2]]


def _seq_gridk(rng, shape):
    ks = ["cells", "cells", "cells_rev"] + (["points"] if min(shape) >= 2 else [])
    return rng.choice(ks)


def _bad_mask(rng, shape):
    """an explicit mask whose shape is NOT the data shape [shape]: the Info.mask setter must refuse it"""
    n = _size(shape)
    cands = [list(reversed(shape)), [n], [1] + list(shape), list(shape) + [1], [shape[0] + 1] + list(shape[1:]),
             [max(1, n - 1)], list(shape[1:]) or [n + 1]]
    cands = [c for c in cands if list(c) != list(shape)]
    sh = rng.choice(cands)
    return {"shape": sh, "bits": [rng.random() < 0.5 for _ in range(_size(sh))]}


def _grid_data_shape(g, dims):
    if g is None:
        return None
    if g["kind"] == "nogrid":
        return list(g["shape"])
    return list(reversed(dims)) if (g["rev"] and len(dims) > 1) else list(dims)


def _add_pre_bad(rng, case):
    """before the acceptance check one side goes through a REFUSED mask assignment (info.mask = wrong shape)"""
    ka, kb = ("sg", "ig") if case["k"] == "accept" else ("og", "ig")
    sides = [(side, case[k]) for side, k in (("a", ka), ("b", kb)) if case[k] is not None]
    if not sides or case.get("share"):
        return case
    side, g = rng.choice(sides)
    return dict(case, pre_bad={"side": side, "mask": _bad_mask(rng, _grid_data_shape(g, case["dims"]))})


def _gen_seq(rng, ncases):
    """one re-used Info object: prepare / attribute assignment / copy_with / copy / accepts interleaved"""
    cases = []
    for j in range(ncases):
        shape = rng.choice(SEQ_SHAPES)
        n = _size(shape)

        def rmask(p=None):
            r = rng.random()
            if r < 0.08:
                return rng.choice(["nomask", "flex", "none"])
            q = p if p is not None else rng.choice([0.3, 0.5])
            return {"shape": shape, "bits": [rng.random() < q for _ in range(n)]}

        order = rng.choice("CF")
        init = {"order": order, "gridk": _seq_gridk(rng, shape), "mask": rmask()}
        ops = []
        cur_order = order
        for _ in range(rng.randint(3, 9)):
            r = rng.random()
            if r < 0.45 or not ops:
                form = rng.choice(["flat", "flat", "flat", "shaped", "timed"])
                ops.append(["prepare", form, _vals(rng, n), rng.random() < 0.3])
            elif r < 0.72:
                cur_order = ("C" if cur_order == "F" else "F") if rng.random() < 0.75 else cur_order
                ops.append(["set_grid", cur_order, _seq_gridk(rng, shape)])
            elif r < 0.80:
                ops.append(["set_mask", _bad_mask(rng, shape) if rng.random() < 0.45 else rmask()])
            elif r < 0.88:
                g = None
                if rng.random() < 0.6:
                    cur_order = rng.choice("CF")
                    g = [cur_order, _seq_gridk(rng, shape)]
                r2 = rng.random()
                ops.append(["copy_with", g, _bad_mask(rng, shape) if r2 < 0.2 else (rmask() if r2 < 0.6 else None)])
            elif r < 0.92:
                ops.append(["copy"])
            elif r < 0.96:
                ops.append(["accepts_derived", _seq_gridk(rng, shape), rng.random() < 0.5])
            else:
                ops.append(["accepts", rmask() if rng.random() < 0.7 else rng.choice(["unset", "flex", "none", "nomask"]),
                            rng.random() < 0.5])
        if j % 3 == 1:  # the info also declares a CF missing value and payload cells hold exactly that value
            mv = rng.choice([-9999, -1])
            init["missing"] = {"key": rng.choice(MISSING_KEYS), "value": mv}
            for op in ops:
                if op[0] == "prepare" and rng.random() < 0.7:
                    op[2] = [mv if rng.random() < 0.3 else v for v in op[2]]
        if j % 3 == 2:  # a refused assignment, then the info is used again
            ops.append(["set_mask", _bad_mask(rng, shape)])
            ops.append(["prepare", rng.choice(["flat", "shaped", "timed"]), _vals(rng, n), rng.random() < 0.3])
            ops.append(["accepts", rmask(), rng.random() < 0.5])
        if j % 3 == 0:  # make sure the tail is a flat prepare after a change of the memory order
            cur_order = "C" if cur_order == "F" else "F"
            ops.append(["set_grid", cur_order, _seq_gridk(rng, shape)])
            ops.append(["prepare", "flat", _vals(rng, n), False])
        cases.append({"k": "seq", "shape": shape, "init": init, "ops": ops})
    return cases


_M = lambda shape, bits: {"shape": shape, "bits": [bool(b) for b in bits]}  # noqa: E731
_U = lambda rev, inc, loc="points": {"kind": "uniform", "rev": rev, "inc": inc, "loc": loc}  # noqa: E731

CORPUS = [
    # tests/data/test_masked.py style 2-D example, both call forms
    _round([3, 2], "F", [0, 1, 2, 3, 4, 5], [1, 0, 0, 0, 0, 1], "unset"),
    _round([3, 2], "C", [0, 1, 2, 3, 4, 5], None, _M([3, 2], [1, 0, 0, 0, 0, 1])),
    # finding D3: pint-wrapped plain data with a separate mask
    _round([3, 2], "F", [0, 1, 2, 3, 4, 5], None, _M([3, 2], [1, 0, 0, 0, 0, 1]), quant=True),
    _round([2, 2], "C", [5, 6, 7, 8], None, "nomask", quant=True),
    # seeded mutant C18_e: `~mask` instead of logical_not: masks that are valid but not bool ndarrays
    _round([5], "C", [7, 4, 3, 6, 1], None, _M([5], [0, 0, 0, 0, 0]), mform="int"),
    _round([3, 2], "F", [0, 1, 2, 3, 4, 5], None, _M([3, 2], [1, 0, 0, 0, 0, 1]), mform="list_int", quant=True),
    _round([2, 2, 2], "F", list(range(8)), None, _M([2, 2, 2], [0, 1, 1, 0, 0, 0, 0, 1]), mform="uint8"),
    _round([2, 3], "C", [10, 11, 12, 13, 14, 15], None, _M([2, 3], [1, 1, 1, 1, 1, 1]), mform="list_bool"),
    _round([2, 3], "F", [10, 11, 12, 13, 14, 15], [0, 1, 0, 0, 1, 0], "unset", mform="int"),
    # Mask.NONE with extra kwargs is refused, FLEX with kwargs gives a masked array
    _round([2, 2], "C", [5, 6, 7, 8], None, "none", kw=True),
    _round([2, 2], "F", [5, 6, 7, 8], None, "flex", kw=True),
    # finding F10: flat payload on a Fortran-ordered grid under a fixed mask
    {"k": "prepare", "shape": [3, 2], "order": "F", "form": "flat", "vals": [0, 1, 2, 3, 4, 5], "own": None,
     "im": _M([3, 2], [1, 1, 0, 0, 0, 0]), "grid": "cells", "quant": False},
    {"k": "prepare", "shape": [2, 2, 2], "order": "F", "form": "flat", "vals": list(range(8)), "own": None,
     "im": _M([2, 2, 2], [1, 0, 0, 0, 0, 0, 1, 1]), "grid": "points", "quant": True},
    # seeded mutant C18_l: the mask setter stores before it validates; a REFUSED assignment must leave the info as it was
    {"k": "seq", "shape": [3, 2], "init": {"order": "C", "gridk": "cells", "mask": _M([3, 2], [1, 1, 0, 0, 0, 0])},
     "ops": [["set_mask", _M([2, 3], [0, 0, 1, 0, 0, 1])], ["prepare", "flat", [0, 1, 2, 3, 4, 5], False],
             ["accepts", _M([3, 2], [1, 1, 0, 0, 0, 0]), False]]},
    {"k": "seq", "shape": [2, 2], "init": {"order": "F", "gridk": "cells", "mask": "flex"},
     "ops": [["set_mask", _M([4], [1, 0, 0, 1])], ["accepts", "none", False], ["copy_with", None, _M([1, 2, 2], [1, 0, 0, 0])],
             ["prepare", "shaped", [1, 2, 3, 4], True]]},
    {"k": "exchange", "om": _M([2, 3], [1, 0, 0, 0, 0, 0]), "og": _U(False, [True, True]),
     "im": _M([2, 3], [1, 0, 0, 0, 0, 0]), "ig": _U(False, [True, True]), "dims": [2, 3], "via": "bare",
     "pre_bad": {"side": "b", "mask": _M([3, 2], [0, 1, 0, 0, 0, 0])}},
    {"k": "accept", "sm": "flex", "sg": _U(False, [True, True]), "im": "none", "ig": _U(False, [True, True]), "down": False,
     "dims": [2, 2], "pre_bad": {"side": "a", "mask": _M([4], [1, 0, 0, 0])}},
    # seeded mutant C18_k: declared missing value masks cells first, the fixed-mask step is then skipped
    {"k": "prepare", "shape": [3, 2], "order": "C", "form": "shaped", "vals": [-9999, 1, 2, 3, 4, 5], "own": None,
     "im": _M([3, 2], [1, 1, 0, 0, 0, 0]), "grid": "cells", "quant": False,
     "missing": {"key": "missing_value", "value": -9999, "pattern": "subset", "cells": [0]}},
    {"k": "prepare", "shape": [2, 2], "order": "F", "form": "flat", "vals": [0, 1, -1, 3], "own": None,
     "im": _M([2, 2], [1, 0, 0, 0]), "grid": "cells", "quant": True,
     "missing": {"key": "_FillValue", "value": -1, "pattern": "outside", "cells": [1]}},
    {"k": "prepare", "shape": [2, 2], "order": "C", "form": "timed", "vals": [999, 999, 2, 999], "own": None,
     "im": _M([2, 2], [1, 1, 0, 0]), "grid": "points", "quant": False,
     "missing": {"key": "both", "value": 999, "pattern": "Mplus1", "cells": [0, 1, 3]}},
    # finding F11: fixed-mask consumer without grid, producer with a different mask of the same shape
    {"k": "exchange", "om": _M([2, 2], [0, 0, 0, 1]), "og": {"kind": "nogrid", "shape": [2, 2]},
     "im": _M([2, 2], [1, 0, 0, 0]), "ig": None, "dims": [2, 2], "via": "bare"},
    {"k": "accept", "sm": _M([2, 2], [1, 0, 0, 0]), "sg": None, "im": _M([2, 2], [0, 0, 0, 1]),
     "ig": {"kind": "nogrid", "shape": [2, 2]}, "down": False, "dims": [2, 2]},
    # seeded mutant C18_a: memoized flat mask not reset by the grid setter (re-used Info, F -> C)
    {"k": "seq", "shape": [3, 2], "init": {"order": "F", "gridk": "cells", "mask": _M([3, 2], [1, 1, 0, 0, 0, 0])},
     "ops": [["prepare", "flat", [0, 1, 2, 3, 4, 5], False], ["set_grid", "C", "cells"],
             ["prepare", "flat", [0, 1, 2, 3, 4, 5], False], ["prepare", "shaped", [0, 1, 2, 3, 4, 5], True]]},
    {"k": "seq", "shape": [2, 2, 2], "init": {"order": "C", "gridk": "points", "mask": _M([2, 2, 2], [1, 0, 0, 0, 0, 0, 1, 1])},
     "ops": [["prepare", "flat", list(range(8)), True], ["copy"], ["set_grid", "F", "cells_rev"],
             ["accepts", _M([2, 2, 2], [1, 0, 0, 0, 0, 0, 1, 1]), False], ["prepare", "flat", list(range(8)), False],
             ["set_mask", _M([2, 2, 2], [0, 1, 1, 0, 0, 0, 0, 0])], ["prepare", "flat", list(range(8)), False]]},
    # seeded mutant C18_c: identity shortcut in masks_compatible; one mask OBJECT on two layouts
    {"k": "exchange", "om": _M([2, 2], [1, 0, 0, 0]), "og": _U(False, [True, True]), "im": _M([2, 2], [1, 0, 0, 0]),
     "ig": _U(False, [True, False]), "dims": [2, 2], "via": "bare", "share": "copy_with"},
    {"k": "accept", "sm": _M([2, 2], [0, 1, 0, 0]), "sg": _U(False, [True, True]), "im": _M([2, 2], [0, 1, 0, 0]),
     "ig": _U(True, [True, True]), "down": False, "dims": [2, 2], "share": "same_obj"},
    {"k": "exchange", "om": _M([2, 2, 2], [1, 1, 0, 0, 0, 0, 0, 0]), "og": _U(True, [True, True, True], "cells"),
     "im": _M([2, 2, 2], [1, 1, 0, 0, 0, 0, 0, 0]), "ig": _U(False, [True, True, True], "cells"), "dims": [2, 2, 2],
     "via": "comp", "share": "copy"},
    {"k": "seq", "shape": [2, 2], "init": {"order": "C", "gridk": "cells", "mask": _M([2, 2], [0, 1, 0, 0])},
     "ops": [["accepts_derived", "cells_rev", False], ["accepts_derived", "cells", True],
             ["prepare", "flat", [1, 2, 3, 4], False]]},
    # nobody provides a mask (ecd57a4)
    {"k": "exchange", "om": "unset", "og": _U(False, [True, True]), "im": "unset", "ig": _U(False, [True, True]),
     "dims": [2, 3], "via": "bare"},
    # same physical mask on transposed / flipped layouts
    {"k": "exchange", "om": _M([2, 3], [1, 0, 0, 0, 0, 0]), "og": _U(False, [True, True]),
     "im": _M([3, 2], [1, 0, 0, 0, 0, 0]), "ig": _U(True, [True, True]), "dims": [2, 3], "via": "comp"},
    {"k": "exchange", "om": _M([2, 3], [1, 0, 0, 0, 0, 0]), "og": _U(False, [True, True]),
     "im": _M([2, 3], [0, 0, 1, 0, 0, 0]), "ig": _U(False, [True, False]), "dims": [2, 3], "via": "bare"},
    {"k": "exchange", "om": _M([2, 3], [1, 0, 0, 0, 0, 0]), "og": _U(False, [True, True]),
     "im": _M([2, 3], [1, 0, 0, 0, 0, 0]), "ig": _U(False, [True, False]), "dims": [2, 3], "via": "bare"},
    # unmasked consumer refuses a masked-array producer even without masked entries
    {"k": "exchange", "om": "nomask", "og": _U(False, [True, True]), "im": "none", "ig": _U(False, [True, True]),
     "dims": [2, 2], "via": "bare"},
]


def generate(rng, tier):
    cases = list(CORPUS)
    if tier == "quick":
        cases += _gen_round_sweep(rng, QUICK_SHAPES, full=True)
        cases += _gen_round_misc(rng, 250)
        cases += _gen_round_random(rng, 150)
        cases += _gen_round_nonbool(rng, 480)
        cases += _gen_prepare(rng, QUICK_SHAPES, 16)
        cases += _gen_prepare_missing(rng, [sh for sh in QUICK_SHAPES if _size(sh) >= 2], 4)
        cases += [_add_pre_bad(rng, c) if i % 4 == 0 else c for i, c in enumerate(_gen_accept(rng, 700))]
        cases += _gen_accept_sweep([[2], [2, 2]])[::3]
        cases += _gen_seq(rng, 500)
        cases += _gen_shared(rng, 500)
    else:
        cases += _gen_round_sweep(rng, QUICK_SHAPES + THOROUGH_SHAPES, full=True)
        cases += _gen_round_misc(rng, 3000)
        cases += _gen_round_random(rng, 10000)
        cases += _gen_round_nonbool(rng, 6000)
        cases += _gen_prepare(rng, QUICK_SHAPES + THOROUGH_SHAPES, 40)
        cases += _gen_prepare_missing(rng, [sh for sh in QUICK_SHAPES + THOROUGH_SHAPES if _size(sh) >= 2], 40)
        cases += [_add_pre_bad(rng, c) if i % 4 == 0 else c for i, c in enumerate(_gen_accept(rng, 12000))]
        cases += _gen_accept_sweep([[2], [3], [2, 2], [3, 2]])
        cases += _gen_seq(rng, 10000)
        cases += _gen_shared(rng, 8000)
    return cases


# ----------------------------------------------------------------------------------------------
# implementation driver
# ----------------------------------------------------------------------------------------------
def _py_mask(m):
    if m == "unset":
        return None
    if m == "flex":
        return fm.Mask.FLEX
    if m == "none":
        return fm.Mask.NONE
    if m == "nomask":
        return np.ma.nomask
    return np.array(m["bits"], dtype=bool).reshape(tuple(m["shape"]))


def _mask_as(bits, shape, mform):
    """an explicit mask written as bool / int / uint8 ndarray or as nested list of bools / ints"""
    a = np.array(bits, dtype=bool).reshape(tuple(shape))
    if mform == "int":
        return a.astype(np.int64)
    if mform == "uint8":
        return a.astype(np.uint8)
    if mform == "list_bool":
        return a.tolist()
    if mform == "list_int":
        return a.astype(int).tolist()
    return a


def _py_grid(g, dims):
    if g is None:
        return None
    if g["kind"] == "nogrid":
        return fm.NoGrid(data_shape=tuple(g["shape"]))
    loc = fm.Location.POINTS if g["loc"] == "points" else fm.Location.CELLS
    d = tuple(dims) if g["loc"] == "points" else tuple(n + 1 for n in dims)
    return fm.UniformGrid(d, axes_reversed=g["rev"], axes_increase=list(g["inc"]), data_location=loc)


def _obs_mask(m):
    if m is None:
        return "unset"
    if m is fm.Mask.FLEX:
        return "flex"
    if m is fm.Mask.NONE:
        return "none"
    if m is np.ma.nomask:
        return "nomask"
    a = np.asarray(m)
    return {"shape": [int(s) for s in a.shape], "bits": [bool(b) for b in a.reshape(-1).tolist()]}


def _run_round(c):
    shape = tuple(c["shape"])
    a = np.array(c["vals"], dtype=np.int64).reshape(shape)
    own = c["own"]
    mform = c.get("mform", "bool")
    if own == "nomask":
        x = np.ma.array(a)
    elif own is not None:
        x = np.ma.array(a, mask=_mask_as(own, shape, mform))
    else:
        x = a
    if c["quant"]:
        x = fm.UNITS.Quantity(x, "m")
    arg = _mask_as(c["arg"]["bits"], c["arg"]["shape"], mform) if _is_bits(c["arg"]) else _py_mask(c["arg"])
    obs = {}
    try:
        if c["arg"] == "unset" and c.get("argform") == "omit":
            comp = fm.data.to_compressed(x, order=c["order"])
        else:
            comp = fm.data.to_compressed(x, order=c["order"], mask=arg)
    except Exception as e:  # noqa
        return {"comp_err": err_class(e)}
    quantified = fm.data.is_quantified(comp)
    obs["units_ok"] = (quantified == c["quant"]) and (not quantified or comp.units == fm.UNITS.Unit("m"))
    cm = comp.magnitude if quantified else comp
    obs["comp_masked_type"] = bool(np.ma.isMaskedArray(cm))
    obs["comp_ndim"] = int(np.ndim(cm))
    obs["comp"] = [int(v) for v in np.asarray(cm).reshape(-1).tolist()]
    eff = arg
    if own == "nomask":
        eff = np.ma.nomask
    elif own is not None:
        eff = _mask_as(own, shape, mform)
    kwargs = {"fill_value": -7} if c["kw"] else {}
    try:
        res = fm.data.from_compressed(comp, shape, order=c["order"], mask=eff, **kwargs)
    except Exception as e:  # noqa
        obs["res"] = ["err", err_class(e)]
        return obs
    rq = fm.data.is_quantified(res)
    obs["units_ok"] = obs["units_ok"] and (rq == c["quant"]) and (not rq or res.units == fm.UNITS.Unit("m"))
    rm = res.magnitude if rq else res
    masked = bool(np.ma.isMaskedArray(rm))
    rshape = [int(s) for s in np.shape(rm)]
    if masked:
        mk = np.ma.getmaskarray(rm).reshape(-1).tolist()
        dat = np.asarray(rm.data).reshape(-1).tolist()
        obs["res"] = ["masked", rshape, [None if mm else int(v) for v, mm in zip(dat, mk)], [bool(b) for b in mk]]
    else:
        obs["res"] = ["plain", rshape, [int(v) for v in np.asarray(rm).reshape(-1).tolist()]]
    return obs


def _prepare_grid(c):
    shape, order = tuple(c["shape"]), c["order"]
    k = c["grid"]
    if k == "nogrid":
        return fm.NoGrid(data_shape=shape)
    if k == "points":
        return fm.UniformGrid(shape, order=order, data_location=fm.Location.POINTS)
    if k == "cells_rev":
        return fm.UniformGrid(tuple(n + 1 for n in reversed(shape)), order=order, axes_reversed=True)
    return fm.UniformGrid(tuple(n + 1 for n in shape), order=order)


def _missing_meta(ms):
    """meta entries declaring a CF missing value"""
    if not ms:
        return {}
    v = float(ms["value"])
    if ms["key"] == "both":
        return {"_FillValue": v, "missing_value": v}
    return {ms["key"]: v}


def _run_prepare(c):
    shape = tuple(c["shape"])
    g = _prepare_grid(c)
    if tuple(int(s) for s in g.data_shape) != shape:
        return {"harness_error": f"grid data_shape {g.data_shape} != {shape}"}
    info = fm.Info(time=T(0), grid=g, units="m", mask=_py_mask(c["im"]), **_missing_meta(c.get("missing")))
    pshape = {"flat": (_size(shape),), "shaped": shape, "timed": (1,) + shape}[c["form"]]
    p = np.array(c["vals"], dtype=np.float64).reshape(pshape)
    if c["own"] == "nomask":
        p = np.ma.array(p)
    elif c["own"] is not None:
        p = np.ma.array(p, mask=np.array(c["own"], dtype=bool).reshape(pshape))
    if c["quant"]:
        p = fm.UNITS.Quantity(p, "m")
    try:
        r = fm.data.prepare(p, info)
    except Exception as e:  # noqa
        return {"err": err_class(e)}
    m = r.magnitude
    if tuple(int(s) for s in m.shape) != (1,) + shape:
        return {"err": "shape", "shape": [int(s) for s in m.shape]}
    masked = bool(np.ma.isMaskedArray(m))
    dat = np.asarray(m.data if masked else m)[0].reshape(-1).tolist()
    return {"data": [int(v) for v in dat],
            "mask": [bool(b) for b in np.ma.getmaskarray(m)[0].reshape(-1).tolist()] if masked else None,
            "units_ok": r.units == fm.UNITS.Unit("m")}


def _info_pair(ma, ga, mb, gb, share, **kw):
    """two Infos; with share the second one carries the very same mask object as the first"""
    import copy as _copy

    a = fm.Info(grid=ga, mask=_py_mask(ma), **kw)
    same = share and ma == mb
    if not same:
        return a, fm.Info(grid=gb, mask=_py_mask(mb), **kw)
    if share == "copy_with" and gb is not None:
        b = a.copy_with(grid=gb)
    elif share == "copy":
        b = _copy.copy(a)
        b.grid = gb
    else:
        b = fm.Info(grid=gb, mask=a.mask, **kw)
    return a, b


def _apply_pre_bad(c, a, b):
    """one side goes through a refused mask assignment; returns None or a description of what went wrong"""
    pb = c.get("pre_bad")
    if not pb:
        return None
    info = a if pb["side"] == "a" else b
    before = _obs_mask(info.mask)
    try:
        info.mask = _py_mask(pb["mask"])
    except Exception as e:  # noqa
        if err_class(e) != "MetaDataError":
            return f"assigning a mask of the wrong shape raised {err_class(e)}"
        after = _obs_mask(info.mask)
        return None if after == before else f"refused mask assignment left state behind: mask {after}, before {before}"
    return "a mask of the wrong shape was accepted by the Info.mask setter"


def _run_accept(c):
    try:
        a, b = _info_pair(c["sm"], _py_grid(c["sg"], c["dims"]), c["im"], _py_grid(c["ig"], c["dims"]), c.get("share"),
                          time=None)
    except Exception as e:  # noqa
        return {"err": err_class(e)}
    pre = _apply_pre_bad(c, a, b)
    shared = bool(isinstance(a.mask, np.ndarray) and a.mask is b.mask)
    fail = {}
    try:
        ok = a.accepts(b, fail, incoming_donwstream=c["down"])
        direct = fm.data.tools.masks_compatible(a.mask, b.mask, c["down"], a.grid, b.grid)
    except Exception as e:  # noqa
        return {"err": err_class(e)}
    return {"mask_ok": "mask" not in fail, "compatible": bool(direct), "accepts": bool(ok),
            "other_fail": sorted(k for k in fail if k != "mask"), "shared_object": shared, "pre_bad": pre}


def _run_exchange(c):
    og, ig = _py_grid(c["og"], c["dims"]), _py_grid(c["ig"], c["dims"])
    oi, ii = _info_pair(c["om"], og, c["im"], ig, c.get("share"), time=T(0), units="m")
    pre = _apply_pre_bad(c, oi, ii)
    if c["via"] == "comp" and c["om"] != "unset" and og is not None:
        return dict(_run_exchange_comp(c, oi, ii), pre_bad=pre)
    out = fm.Output(name="Out")
    inp = fm.Input(name="In")
    out >> inp
    inp.ping()
    out.push_info(oi)
    try:
        inp.exchange_info(ii)
    except Exception as e:  # noqa
        return {"res": ["err", err_class(e)], "via": "bare", "pre_bad": pre}
    return {"res": ["ok", _obs_mask(inp.info.mask)], "out_mask": _obs_mask(out.info.mask), "via": "bare", "pre_bad": pre}


def _run_exchange_comp(c, oi, ii):
    shape = tuple(int(s) for s in oi.grid.data_shape)
    start = T(0)
    gen = fm.components.CallbackGenerator({"Out": (lambda t: np.zeros(shape), oi)}, start=start,
                                          step=timedelta(days=1))
    con = fm.components.DebugConsumer({"In": ii}, start=start, step=timedelta(days=1))
    comp = fm.Composition([gen, con], print_log=False)
    gen.outputs["Out"] >> con.inputs["In"]
    try:
        comp.connect()
    except Exception as e:  # noqa
        return {"res": ["err", err_class(e)], "via": "comp"}
    return {"res": ["ok", _obs_mask(con.inputs["In"].info.mask)], "out_mask": _obs_mask(gen.outputs["Out"].info.mask),
            "via": "comp"}


def _seq_grid(shape, order, gk):
    return _prepare_grid({"shape": shape, "order": order, "grid": gk})


def _prep_obs(shape, form, vals, quant, info):
    shape = tuple(shape)
    pshape = {"flat": (_size(shape),), "shaped": shape, "timed": (1,) + shape}[form]
    p = np.array(vals, dtype=np.float64).reshape(pshape)
    if quant:
        p = fm.UNITS.Quantity(p, "m")
    try:
        r = fm.data.prepare(p, info)
    except Exception as e:  # noqa
        return {"err": err_class(e)}
    m = r.magnitude
    if tuple(int(x) for x in m.shape) != (1,) + shape:
        return {"err": "shape"}
    masked = bool(np.ma.isMaskedArray(m))
    dat = np.asarray(m.data if masked else m)[0].reshape(-1).tolist()
    return {"data": [int(v) for v in dat],
            "mask": [bool(b) for b in np.ma.getmaskarray(m)[0].reshape(-1).tolist()] if masked else None}


def _run_seq(c):
    import copy as _copy

    shape = c["shape"]
    cur = dict(c["init"])
    meta = _missing_meta(cur.pop("missing", None))
    info = fm.Info(time=T(0), grid=_seq_grid(shape, cur["order"], cur["gridk"]), units="m", mask=_py_mask(cur["mask"]),
                   **meta)
    steps = []
    for op in c["ops"]:
        try:
            if op[0] == "prepare":
                o = _prep_obs(shape, op[1], op[2], op[3], info)
                fresh = fm.Info(time=T(0), grid=_seq_grid(shape, cur["order"], cur["gridk"]), units="m",
                                mask=_py_mask(cur["mask"]), **meta)
                o["fresh"] = _prep_obs(shape, op[1], op[2], op[3], fresh)
                steps.append(["prep", o])
            elif op[0] == "set_grid":
                info.grid = _seq_grid(shape, op[1], op[2])
                cur["order"], cur["gridk"] = op[1], op[2]
                steps.append(["none"])
            elif op[0] == "set_mask":
                info.mask = _py_mask(op[1])
                cur["mask"] = op[1]
                steps.append(["none"])
            elif op[0] == "copy_with":
                kw = {}
                if op[1] is not None:
                    kw["grid"] = _seq_grid(shape, op[1][0], op[1][1])
                if op[2] is not None:
                    kw["mask"] = _py_mask(op[2])
                info = info.copy_with(**kw)
                if op[1] is not None:
                    cur["order"], cur["gridk"] = op[1]
                if op[2] is not None:
                    cur["mask"] = op[2]
                steps.append(["none"])
            elif op[0] == "copy":
                info = _copy.copy(info)
                steps.append(["none"])
            elif op[0] == "accepts_derived":
                other = info.copy_with(grid=_seq_grid(shape, cur["order"], op[1]))
                fail = {}
                info.accepts(other, fail, incoming_donwstream=op[2])
                steps.append(["acc", "mask" not in fail])
            else:
                other = fm.Info(time=T(0), grid=info.grid, units="m", mask=_py_mask(op[1]))
                fail = {}
                info.accepts(other, fail, incoming_donwstream=op[2])
                steps.append(["acc", "mask" not in fail])
        except Exception as e:  # noqa
            # the info as it is after the failed call (a refused call must leave it unchanged)
            steps.append(["err", err_class(e), _obs_mask(info.mask)])
    return {"steps": steps, "final_mask": _obs_mask(info.mask)}


def run_impl(case):
    return {"round": _run_round, "prepare": _run_prepare, "accept": _run_accept, "exchange": _run_exchange,
            "seq": _run_seq}[case["k"]](case)


# ----------------------------------------------------------------------------------------------
# Gallina emitter
# ----------------------------------------------------------------------------------------------
def _shape(s):
    return L(N(x) for x in s)


def _order(o):
    return "OC" if o == "C" else "OF"


def _bits(b):
    return L(B(x) for x in b)


def _mspec(m):
    if m == "unset":
        return "MUnset"
    if m == "flex":
        return "MFlex"
    if m == "none":
        return "MNone"
    if m == "nomask":
        return "MNomask"
    return C("mkbits", _shape(m["shape"]), _bits(m["bits"]))


def _own(w):
    if w is None:
        return NONE
    if w == "nomask":
        return Some(NONE)
    return Some(Some(_bits(w)))


def _gspec(g):
    if g is None:
        return NONE
    if g["kind"] == "nogrid":
        return Some("GPlain")
    return Some(C("GStruct", B(g["rev"]), _bits(g["inc"])))


def _seq_gspec(gk, rank):
    return C("GStruct", B(gk == "cells_rev"), _bits([True] * rank))


_FORM = {"flat": "Flat", "shaped": "Shaped", "timed": "Timed"}


def _seq_op(op, rank):
    if op[0] == "prepare":
        return C("IPrepare", _FORM[op[1]], L(Z(v) for v in op[2]))
    if op[0] == "set_grid":
        return C("ISetGrid", _order(op[1]), _seq_gspec(op[2], rank))
    if op[0] == "set_mask":
        return C("ISetMask", _mspec(op[1]))
    if op[0] == "copy_with":
        g = NONE if op[1] is None else Some(P(_order(op[1][0]), _seq_gspec(op[1][1], rank)))
        return C("ICopyWith", g, NONE if op[2] is None else Some(_mspec(op[2])))
    if op[0] == "copy":
        return "ICopy"
    if op[0] == "accepts_derived":
        return C("IAcceptsDerived", _seq_gspec(op[1], rank), B(op[2]))
    return C("IAccepts", _mspec(op[1]), B(op[2]))


def coq_case(case, obs):
    k = case["k"]
    if k == "seq":
        rank = len(case["shape"])
        i = case["init"]
        st = C("mkinfo", _shape(case["shape"]), _order(i["order"]), _seq_gspec(i["gridk"], rank), _mspec(i["mask"]))
        return C("KSeq", st, L(_seq_op(op, rank) for op in case["ops"]))
    if k == "round":
        return C("KRound", _shape(case["shape"]), _order(case["order"]), L(Z(v) for v in case["vals"]),
                 _own(case["own"]), _mspec(case["arg"]), B(case["kw"]))
    if k == "prepare":
        return C("KPrepare", _shape(case["shape"]), _order(case["order"]),
                 {"flat": "Flat", "shaped": "Shaped", "timed": "Timed"}[case["form"]],
                 L(Z(v) for v in case["vals"]), _own(case["own"]), _mspec(case["im"]))
    if k == "accept":
        return C("KAccept", _mspec(case["sm"]), _gspec(case["sg"]), _mspec(case["im"]), _gspec(case["ig"]), B(case["down"]))
    return C("KExchange", _mspec(case["om"]), _gspec(case["og"]), _mspec(case["im"]), _gspec(case["ig"]))


def _optz(v):
    return NONE if v is None else Some(Z(v))


def coq_obs(case, obs):
    k = case["k"]
    if k == "seq":
        out = []
        for op, st in zip(case["ops"], obs["steps"]):
            if st[0] == "err" and st[1] == "MetaDataError" and op[0] in ("set_mask", "copy_with"):
                out.append("SRefused")
            elif st[0] == "prep":
                o = st[1]
                if "err" in o:
                    return C("OOther", N(4))
                out.append(C("SPrep", L(Z(v) for v in o["data"]), NONE if o["mask"] is None else Some(_bits(o["mask"]))))
            elif st[0] == "acc":
                out.append(C("SAcc", B(st[1])))
            elif st[0] == "none":
                out.append("SNothing")
            else:
                return C("OOther", N(5))
        return C("OSeq", L(out))
    if "err" in obs or "comp_err" in obs:
        return C("OOther", N(1))
    if k == "round":
        r = obs["res"]
        if r[0] == "err":
            ro = "RErr" if r[1] == "DataError" else None
        elif r[0] == "plain":
            ro = C("RPlain", _shape(r[1]), L(_optz(v) for v in r[2]))
        else:
            ro = C("RMasked", _shape(r[1]), L(_optz(v) for v in r[2]), _bits(r[3]))
        if ro is None:
            return C("OOther", N(2))
        return C("ORound", L(Z(v) for v in obs["comp"]), ro)
    if k == "prepare":
        return C("OPrepare", L(Z(v) for v in obs["data"]), NONE if obs["mask"] is None else Some(_bits(obs["mask"])))
    if k == "accept":
        return C("OAccept", B(obs["mask_ok"]), B(obs["compatible"]))
    r = obs["res"]
    if r[0] == "err":
        return C("OExchange", NONE) if r[1] == "MetaDataError" else C("OOther", N(3))
    return C("OExchange", Some(_mspec(r[1])))


# ----------------------------------------------------------------------------------------------
# property monitor (documented behaviour, recomputed independently)
# ----------------------------------------------------------------------------------------------
def _mon_round(c, o):
    shape, order = tuple(c["shape"]), c["order"]
    n = _size(shape)
    if "comp_err" in o:
        return f"to_compressed raised {o['comp_err']} on an in-domain input"
    own, arg = c["own"], c["arg"]
    eff = own if own is not None else arg  # "nomask" | bits list | mspec
    bits = eff if isinstance(eff, list) else (eff["bits"] if _is_bits(eff) else None)
    idxs = _indices(shape, order)
    exp = [_get(shape, c["vals"], i) for i in idxs if not (bits and _get(shape, bits, i))]
    if o["comp"] != exp:
        return (f"to_compressed returned {o['comp']}, expected the {len(exp)} unmasked values in {order} order {exp}")
    if o["comp_ndim"] != 1:
        return "to_compressed result is not 1-D"
    if not o["units_ok"]:
        return "units / quantification not preserved"
    r = o["res"]
    fixed = bits is not None or eff == "nomask"
    if not fixed and c["kw"] and eff == "none":
        return None if r == ["err", "DataError"] else f"from_compressed(mask=Mask.NONE, **kwargs) gave {r[0]}, expected FinamDataError"
    if r[0] == "err":
        return f"from_compressed raised {r[1]} on an in-domain input"
    if list(r[1]) != list(shape):
        return f"from_compressed result has shape {r[1]}, expected {list(shape)}"
    want_masked = fixed or c["kw"]
    if (r[0] == "masked") != want_masked:
        return f"from_compressed returned a {r[0]} array, expected {'masked' if want_masked else 'plain'}"
    mbits = list(bits) if bits else [False] * n
    if r[0] == "masked" and r[3] != mbits:
        return f"expanded mask {r[3]} differs from the given mask {mbits}"
    for i in range(n):
        if not mbits[i] and r[2][i] != c["vals"][i]:
            return f"value at C-position {i} is {r[2][i]}, original {c['vals'][i]}"
    return None


def _mon_prepare(c, o):
    if "err" in o:
        return f"prepare failed ({o['err']}) on an in-domain payload"
    shape, order = tuple(c["shape"]), c["order"]
    n = _size(shape)
    cidx = _indices(shape, "C")
    if c["form"] == "flat":
        pos = {idx: k for k, idx in enumerate(_indices(shape, order))}
        expd = [c["vals"][pos[i]] for i in cidx]
    else:
        expd = list(c["vals"])
    if o["data"] != expd:
        return f"prepared data {o['data']} differs from the payload laid out in the grid's order {expd}"
    if c["own"] is None:
        im = c["im"]
        if _is_bits(im) and o["mask"] != im["bits"]:
            ms = c.get("missing")
            extra = (f" (info declares {ms['key']}={ms['value']}; payload cells {ms.get('cells')} hold that value)"
                     if ms else "")
            return f"prepare applied mask {o['mask']}, the info's fixed mask is {im['bits']}{extra}"
        if im == "nomask" and o["mask"] != [False] * n:
            return f"prepare applied mask {o['mask']} under nomask"
        if im in ("flex", "none") and o["mask"] is not None:
            return "prepare produced a masked array under FLEX / NONE for plain data"
    return None


def _mon_accept(c, o):
    if "err" in o:
        return f"Info.accepts / masks_compatible raised {o['err']}"
    if o.get("pre_bad"):
        return o["pre_bad"]
    if c["down"]:
        cons, prod, cg, pg = c["im"], c["sm"], c["ig"], c["sg"]
    else:
        cons, prod, cg, pg = c["sm"], c["im"], c["sg"], c["ig"]
    exp = _doc_accepts(cons, prod, cg, pg)
    if o["compatible"] != exp:
        return f"masks_compatible = {o['compatible']}, documented relation (consumer {cons}, producer {prod}) = {exp}"
    exp_ok = c["sm"] == "unset" or exp or (c["down"] and c["im"] == "unset")
    if o["mask_ok"] != exp_ok:
        return f"Info.accepts mask verdict {o['mask_ok']}, expected {exp_ok}"
    return None


def _mon_exchange(c, o):
    if o.get("pre_bad"):
        return o["pre_bad"]
    r = o["res"]
    om, im, og, ig = c["om"], c["im"], c["og"], c["ig"]
    if og is None and ig is None:
        exp = False
    elif om == "unset":
        exp = False
    elif im == "unset":
        exp = True
    else:
        exp = _doc_accepts(im, om, ig, og if og is not None else ig)
    if r[0] == "err":
        if r[1] != "MetaDataError":
            return f"exchange raised {r[1]}"
        return "exchange refused although the documented relation accepts" if exp else None
    if not exp:
        return f"exchange succeeded although the documented relation refuses (consumer {im}, producer {om})"
    rm, outm = r[1], o["out_mask"]
    if _fixed(rm) and _fixed(outm) and rm != outm:
        # the input may carry the mask in the producer's layout (as the code does) or in its own
        g_in, g_out = (ig if ig is not None else og), (og if og is not None else ig)
        try:
            same = _doc_accepts(rm, outm, g_in, g_out)
        except Exception:  # noqa  (mask does not fit the layout)
            same = False
        if not same:
            return "input and output hold different fixed masks after the exchange"
    return None


def _mon_seq(c, o):
    cur = dict(c["init"])
    for i, (op, st) in enumerate(zip(c["ops"], o["steps"])):
        newmask = op[1] if op[0] == "set_mask" else (op[2] if op[0] == "copy_with" else None)
        bad = _is_bits(newmask) and list(newmask["shape"]) != list(c["shape"])
        if bad:
            if st[0] != "err" or st[1] != "MetaDataError":
                return f"step {i}: a mask of shape {newmask['shape']} was not refused on a grid with data shape {c['shape']}"
            if st[2] != cur["mask"]:
                return (f"step {i}: the refused mask assignment left state behind: info.mask is now {st[2]}, "
                        f"before the refused call it was {cur['mask']}")
            continue
        if st[0] == "err":
            return f"step {i} {op[0]} raised {st[1]}"
        if op[0] == "prepare":
            ob = st[1]
            pc = {"shape": c["shape"], "order": cur["order"], "form": op[1], "vals": op[2], "own": None, "im": cur["mask"]}
            f = _mon_prepare(pc, ob)
            if f:
                return f"step {i} (re-used Info, current grid order {cur['order']}): {f}"
            if {k: v for k, v in ob.items() if k != "fresh"} != ob["fresh"]:
                return (f"step {i}: prepare under the re-used Info gives mask {ob.get('mask')}, a fresh Info with the "
                        f"same fields gives {ob['fresh'].get('mask')}")
        elif op[0] == "set_grid":
            cur["order"], cur["gridk"] = op[1], op[2]
        elif op[0] == "set_mask":
            cur["mask"] = op[1]
        elif op[0] == "copy_with":
            if op[1] is not None:
                cur["order"], cur["gridk"] = op[1]
            if op[2] is not None:
                cur["mask"] = op[2]
        elif op[0] == "accepts_derived":
            g1 = {"kind": "uniform", "rev": cur["gridk"] == "cells_rev", "inc": [True] * len(c["shape"]), "loc": "cells"}
            g2 = dict(g1, rev=op[1] == "cells_rev")
            exp = _doc_accepts(cur["mask"], cur["mask"], g2, g1) if op[2] else _doc_accepts(cur["mask"], cur["mask"], g1, g2)
            if st[1] != (cur["mask"] == "unset" or exp):
                return (f"step {i}: info.accepts(info.copy_with(grid=other layout)) gave {st[1]}, the documented relation "
                        f"for mask {cur['mask']} on layouts {cur['gridk']} / {op[1]} gives {exp}")
        elif op[0] == "accepts":
            g = {"kind": "uniform", "rev": cur["gridk"] == "cells_rev", "inc": [True] * len(c["shape"]), "loc": "cells"}
            if op[2]:
                exp = _doc_accepts(op[1], cur["mask"], g, g)
            else:
                exp = _doc_accepts(cur["mask"], op[1], g, g)
            exp_ok = cur["mask"] == "unset" or exp or (op[2] and op[1] == "unset")
            if st[1] != exp_ok:
                return f"step {i}: Info.accepts mask verdict {st[1]}, expected {exp_ok}"
    if o["final_mask"] != cur["mask"]:
        return "the info's mask field differs from the last successfully assigned mask"
    return None


def monitor(case, obs):
    return {"round": _mon_round, "prepare": _mon_prepare, "accept": _mon_accept, "exchange": _mon_exchange,
            "seq": _mon_seq}[case["k"]](case, obs)


def nontrivial(case, obs):
    k = case["k"]
    if k == "seq":
        kinds = [op[0] for op in case["ops"]]
        changed = any(x in kinds for x in ("set_grid", "set_mask", "copy_with"))
        im = case["init"]["mask"]
        return changed and kinds.count("prepare") >= 2 and _is_bits(im) and any(im["bits"]) and not all(im["bits"])
    if k == "round":
        eff = case["own"] if case["own"] is not None else case["arg"]
        bits = eff if isinstance(eff, list) else (eff["bits"] if _is_bits(eff) else None)
        return bool(bits) and any(bits) and not all(bits)
    if k == "prepare":
        im = case["im"]
        return _is_bits(im) and any(im["bits"]) and not all(im["bits"])
    a, b = (case["sm"], case["im"]) if k == "accept" else (case["om"], case["im"])
    ga, gb = (case["sg"], case["ig"]) if k == "accept" else (case["og"], case["ig"])
    return _is_bits(a) and _is_bits(b) and ga != gb


def distribution(cases, obss):
    from collections import Counter

    kinds = Counter(c["k"] for c in cases)
    ranks = Counter(len(c["shape"]) for c in cases if "shape" in c)
    orders = Counter(c["order"] for c in cases if "order" in c)
    forms = Counter(("own" if c["own"] is not None else "arg:" + (c["arg"] if isinstance(c["arg"], str) else "bits"))
                    + ("/pint" if c["quant"] else "") for c in cases if c["k"] == "round")
    mforms = Counter(("own:" if c["own"] is not None else "arg:") + c.get("mform", "bool") for c in cases
                     if c["k"] == "round" and (isinstance(c["own"], list) or _is_bits(c["arg"])))
    pforms = Counter(c["form"] + "/" + c["order"] for c in cases if c["k"] == "prepare")
    pmiss = Counter(c["missing"]["pattern"] + "/" + c["missing"]["key"] for c in cases
                    if c["k"] == "prepare" and c.get("missing"))
    acc = Counter()
    for c, o in zip(cases, obss):
        if c["k"] == "accept" and "compatible" in o:
            acc["accept:" + str(o["compatible"])] += 1
        if c["k"] == "exchange" and "res" in o:
            acc["exchange/" + o.get("via", "?") + ":" + o["res"][0]] += 1
    return {"kinds": dict(kinds), "ranks": dict(ranks), "orders": dict(orders), "round_forms": dict(forms), "explicit_mask_written_as": dict(mforms),
            "prepare_forms": dict(pforms), "prepare_missing_value_patterns": dict(pmiss), "acceptance_outcomes": dict(acc)}


def shrink_candidates(case):
    k = case["k"]
    if k == "seq":
        ops = case["ops"]
        for i in range(len(ops) - 1, -1, -1):
            yield dict(case, ops=ops[:i] + ops[i + 1:])
        return
    if k in ("round", "prepare"):
        shape = case["shape"]
        # drop one axis entry (shrinks the arrays consistently for simple cases only)
        for ax in range(len(shape)):
            if shape[ax] > 1 and len(shape) == 1:
                n = shape[ax] - 1
                c2 = dict(case, shape=[n], vals=case["vals"][:n])
                if isinstance(case.get("own"), list):
                    c2["own"] = case["own"][:n]
                for key in ("arg", "im"):
                    if key in case and _is_bits(case[key]):
                        c2[key] = {"shape": [n], "bits": case[key]["bits"][:n]}
                yield c2
        if case.get("quant"):
            yield dict(case, quant=False)
        if case.get("kw"):
            yield dict(case, kw=False)
    else:
        for key in ("sm", "im", "om"):
            if key in case and _is_bits(case[key]) and any(case[key]["bits"]):
                b = list(case[key]["bits"])
                i = b.index(True)
                b[i] = False
                yield dict(case, **{key: {"shape": case[key]["shape"], "bits": b}})
