"""C02 — the driver follows least-advanced-first and updates only what is needed.

Same correspondence as C01 (the update order of the REAL Composition.run equals the model's).  Monitor: every
updated component is the first least-advanced one or is reachable from it along components that lack data the next
one needs (computed by composing the adapters' documented time shifts in pull order), has itself no lagging
dependency, and the time computed for a link equals the time argument observed at the source output."""
from . import sched_common as sc
from . import builtin_family as bf
from .sched_common import (TRUSTED, coq_obs)  # noqa: F401
from . import c01

# as for C01: dense compositions against FV.Sched and FV.SchedSparse, sparse publishers against FV.SchedSparse
COQ_IMPORTS = c01.COQ_IMPORTS
COQ_CHECK = c01.COQ_CHECK
COQ_MODEL_OBS = c01.COQ_MODEL_OBS
coq_case = sc.coq_case_c01

ID = "C02"
RULE = (
    "compositions as for C01 with more delay adapters (several DelayFixed / DelayToPull on one link) and step ratios "
    "different from 1; non-trivial = C01's rule and at least one link with a delay adapter or two components with "
    "different steps; distinct by canonical case hash"
)
ASSUMPTIONS = c01.ASSUMPTIONS
CASE_TIMEOUT = 60
CORPUS = c01.CORPUS[:5]


def generate(rng, tier):
    n = 260 if tier == "quick" else 5000
    cases = list(CORPUS)
    for i in range(n):
        m = i % 10
        if m == 0:
            cases.append(sc.gen_pipeline(rng))
        elif m == 1:
            cases.append([sc.gen_shared_equal, sc.gen_relay2, sc.gen_two_relays, sc.gen_pull_ring, sc.gen_lookahead, sc.gen_ring_mixed, sc.gen_relay_twice][(i // 10) % 7](rng))
        elif m < 5:
            cases.append(sc.gen_dag(rng) if i % 3 else sc.with_listeners(rng, sc.gen_dag(rng)))
        elif m < 9:
            cases.append(sc.gen_ring(rng, sufficient=True) if i % 3 else sc.with_listeners(rng, sc.gen_ring(rng, sufficient=True)))
        else:
            cases.append(sc.gen_ring(rng))
    # every special family is drawn a fixed number of times (the rotation above reaches each only a few times)
    for g in (sc.gen_shared_equal, sc.gen_relay2, sc.gen_two_relays, sc.gen_pull_ring, sc.gen_lookahead, sc.gen_ring_mixed,
              sc.gen_relay_twice, sc.gen_ring_staggered, sc.gen_topush_behind_pull):
        for _ in range(4 if tier == "quick" else 60):
            cases.append(g(rng))
    for _ in range(30 if tier == "quick" else 800):
        cases.append(sc.gen_sparse(rng))
    for _ in range(10 if tier == "quick" else 200):
        cases.append(sc.gen_ctrl_step(rng))   # step switched from outside (monitor only)
    for _ in range(16 if tier == "quick" else 300):
        cases.append(sc.gen_push_merger(rng))  # a push-based component with outputs in between (monitor only)
    # finam's own components with timedelta / calendar steps (monitor only)
    for _ in range(16 if tier == "quick" else 300):
        cases.append(bf.gen_builtin(rng))
    return cases


def monitor(case, obs):
    if "builtin" in case:
        return bf.monitor_builtin(case, obs)
    if sc.has_ctrl(case) or sc.has_push_comp(case):
        return c01.monitor(case, obs)   # the announced time is the time of the update: no pull beyond what is published
    comps = case["comps"]
    if obs["phase"] != "run":
        return f"connect phase failed with {obs['outcome']}"
    for item in sc.walk_trace(case, obs):
        if item[0] == "update":
            _, u, newt, times, cnt, tr = item
            tmin = min(times.values())
            c0 = min(k for k, t in times.items() if t == tmin)
            # closure of "lacks data that the next one needs", starting at the first least-advanced component
            reach = {c0}
            todo = [c0]
            while todo:
                c = todo.pop()
                for s in tr.lagging_sources(c, sc.next_time_of(case, c, cnt, times), tr.pubs):
                    if s not in reach:
                        reach.add(s)
                        todo.append(s)
            if u not in reach:
                return (f"C{u} was updated (to {newt}) although it is neither the least advanced component C{c0} "
                        f"nor upstream of it along a chain of missing data (times {times})")
            lag = tr.lagging_sources(u, sc.next_time_of(case, u, cnt, times), tr.pubs)
            if lag:
                return f"C{u} was updated (to {newt}) while its sources {sorted(set(lag))} still lack data it needs"
            if newt != sc.next_time_of(case, u, cnt, times):
                return f"C{u} was advanced to {newt}, announced {sc.next_time_of(case, u, cnt, times)}"
        else:
            _, c, i, t, seen, (exp, buf, cut), tr = item
            if seen is None or sc.is_static_src(comps, comps[c]["inputs"][i]["src"]):
                continue
            if seen[3] != exp:
                return (f"link C{c}.i{i} (chain {comps[c]['inputs'][i]['chain']}): request for {t} reached the "
                        f"{'buffering adapter' if seen[0] == 'B' else 'source output'} as {seen[3]}, the composed delays give {exp}")
    if obs["outcome"] not in ("ok", "CircularCoupling"):
        return f"run ended with {obs['outcome']}"
    return None


def nontrivial(case, obs):
    if "builtin" in case:
        return len(obs.get("mid_times", [])) >= 3
    if not c01.nontrivial(case, obs):
        return False
    comps = case["comps"]
    delay = any(a[0] in ("fixed", "topull") for c in comps for i in c["inputs"] for a in i["chain"])
    steps = {tuple(c["steps"]) for c in comps if c["kind"] == "T"}
    return delay or len(steps) > 1


classifiers = c01.classifiers


def model_applies(case):
    return "builtin" not in case and not sc.has_ctrl(case)


def run_impl(case):
    if "builtin" in case:
        return bf.run_builtin(case["builtin"])
    return sc.run_impl(case)


def shrink_candidates(case):
    if "builtin" in case or sc.has_push_comp(case):
        return
    yield from sc.shrink_candidates(case)


def distribution(cases, obss):
    pairs = [(c, o) for c, o in zip(cases, obss) if "builtin" not in c]
    d = sc.distribution([c for c, _ in pairs], [o for _, o in pairs])
    d["builtin_component_cases"] = len(cases) - len(pairs)
    return d
