"""C12 — time integration adapters conserve the integral.

Correspondence: a real link  Output >> {AvgOverTime(step) | SumOverTime(step, per_time, initial_interval)}
>> Input  is driven through the public API by scripted publications and consumer pulls (partitions of the
period that are finer / coarser / incommensurable with the source steps).  The same script is evaluated by the
Coq model TimeInteg.run_i (one run per payload component); every pull result is compared inside Coq
(relative tolerance 2^-40; exactly for dyadic absolute sums).  Delivered quantities are converted back to
(source units x s) for per-time sums; dimensionality / reducedness of the delivered unit is checked here.

Monitor: the exact integral of the linear / step interpolant of the full publication history, recomputed here
with Fractions by splitting at all break points; conservation over the whole script; average within the range
of the contributing values.
"""
from bisect import bisect_left, bisect_right
from collections import Counter
from fractions import Fraction

import gc

import numpy as np

from ..coqgen import B, C, L, N, NONE, Q, Some
from ..fin import fm, T, D, err_class, magnitude
from .c11 import (DAY, GAPS, SHAPES, Qf, Z, _val, consumer_grid, end_of_link, freeze_once, ghost_values, make_grid, make_notified,
                  request_ops, set_memory,
                  to_source_cells)
from .c11 import coq_results as _c11_coq_obs

ID = "C12"
TITLE = "Time integration adapters conserve the integral"
COQ_IMPORTS = "From FV Require Import Base TimeInterp TimeInteg."
COQ_CHECK = "c12_check"
COQ_MODEL_OBS = "c12_model"
RULE = (
    "random publication series (strictly increasing times, irregular gaps from 1us to ~10 days) interleaved with "
    "consumer pulls p0 < p1 < ... that partition the period finer / coarser / incommensurably with the source steps "
    "(incl. pulls exactly on publications, at the step position, 1us steps, pulls spanning several publications), the "
    "initial pull at the first publication time, and out-of-range pulls; every 11th case has a push-driven consumer "
    "(CallbackInput pulling at every publication, inside the notification); AvgOverTime and SumOverTime, linear and "
    "step in {0,1/4,1/2,1,1/8,3/4,1/3,2/3,1/10,3/10}, per_time and absolute, initial_interval in {0,1us,1h,1d}, units "
    "m/s, mm/d, m, dimensionless, 1/d, scalar and small gridded payloads; data shapes incl. grids with a degenerate axis; 30% of the gridded "
    "consumers describe the grid with axes running the other way (cells matched by coordinates); 40% of the gridded series have single "
    "publications with one or two missing cells (NaN, or masked with FLEX info); a third of the series contain plateaus "
    "(the same payload, often zeros, published 3 or more times in a row); a quarter of the cases give the adapter a "
    "memory limit (0 / 1.5 payloads / huge) with one spill directory per worker process and are preceded by another "
    "coupling (other payloads) in the same process and directory; non-trivial = at least 3 publications and at "
    "least two successful pulls with p0 < p1 of which one spans a publication and one lies strictly inside a "
    "publication interval or ends off a publication; distinct by canonical case hash"
)
TRUSTED = [
    "consumer grids given in another compatible layout (axes running the other way): delivered cells are matched to the "
    "published cells by their coordinates (grid.data_points of both grids), finam's layout transform itself is C15's subject",
    "IEEE rounding of the integration arithmetic is outside the model: compared with relative tolerance 2^-40 of "
    "(1+max|v|) x (4 for averages | 1+#ops for absolute sums | 1+span_seconds+|initial_interval| for per-time sums); "
    "absolute sums with power-of-two gaps, dyadic values and dyadic step are compared exactly",
    "float comparisons min/max(dt, step) are modelled with the nominal rational step position p/q (float(p/q) is given to finam)",
    "pint: the delivered per-time sum is converted back to (source units x s) with pint before the comparison; which "
    "reduced unit pint chooses is not modelled, only checked here to have the dimensionality of units x time and to be reduced",
    "gridded payloads: numpy's element-wise arithmetic is modelled as one scalar run per component",
]
ASSUMPTIONS = [
    "domain of the theorems: strictly increasing publication times; every in-range pull is either later than the "
    "previous pull (p0 < p1 strictly; p0 = first publication time before the first pull) or the initial pull at the "
    "first publication time while no later pull happened; out-of-range pulls may occur anywhere",
    "a repeated pull at the same time p0 = p1 (other than the initial one) is outside the statement: AvgOverTime "
    "raises FinamTimeError or returns the last value, SumOverTime returns 0 or fails on sum_value None (observation, not claimed)",
]

STEPS = [[0, 1], [1, 4], [1, 2], [1, 1], [1, 8], [3, 4], [1, 3], [2, 3], [1, 10], [3, 10]]
DYADIC_STEPS = [[0, 1], [1, 4], [1, 2], [1, 1], [1, 8], [3, 4]]
UNITS = ["m/s", "mm/d", "m", "", "1/d"]
INITS = [0, 0, 1, 3600 * 10**6, DAY]
POW2_GAPS = [1, 2, 4, 8, 16, 1024]


def _gen_case(rng, i, malformed):
    adapter = "avg" if i % 3 == 0 else "sum"
    per_time = adapter == "sum" and rng.random() < 0.6
    linear = rng.random() < 0.45
    exact = adapter == "sum" and not per_time and rng.random() < 0.5
    step = None if linear else rng.choice(DYADIC_STEPS if exact else (STEPS if rng.random() < 0.7 else STEPS[:4]))
    shape = rng.choice(SHAPES)
    n = int(np.prod(shape)) if shape else 1
    gaps = rng.sample(POW2_GAPS if exact else GAPS, rng.choice([1, 2, 3]))
    if not exact and rng.random() < 0.3:
        gaps.append(rng.randint(1, 2**39))
    nops = rng.randint(4, 22)
    t = rng.choice([0, 0, 5, DAY])
    pubs, ops = [], []
    # plateaus: the source publishes the SAME payload several times in a row (dry spell, constant rate); every
    # published interval still counts (absolute sums: once per interval, whatever its length)
    plateau = rng.random() < 0.35
    # missing values in gridded payloads: NaN cells, or masked cells (numpy masked array, Mask.FLEX info)
    missing = rng.choice(["nan", "mask"]) if (shape and rng.random() < 0.4) else None
    last_payload = None
    prev = None          # the adapter's _prev_time
    pulled_later = False  # a pull later than the first publication happened

    def push():
        nonlocal t, prev
        if pubs:
            t += rng.choice(gaps)
        pubs.append(t)
        if prev is None:
            prev = t
        nonlocal last_payload
        if plateau and last_payload is not None and rng.random() < 0.7:
            payload = list(last_payload)
        elif plateau and rng.random() < 0.3:
            payload = [0.0] * n
        else:
            payload = [_val(rng, exact) for _ in range(n)]
        last_payload = payload
        op = ["push", t, payload]
        if missing:
            # single publications carry one or two missing cells (NaN or masked), the others are complete
            flags = [0] * n
            if rng.random() < 0.35:
                for j in rng.sample(range(n), rng.choice([1, 1, 2]) if n > 1 else 1):
                    flags[j] = 1
            op.append(flags)
        ops.append(op)

    if not (malformed and rng.random() < 0.4):
        push()
    if rng.random() < 0.7 and pubs:
        ops.append(["pull", pubs[0]])            # the usual initial pull
    for _ in range(nops):
        if not pubs:
            if rng.random() < 0.5:
                ops.append(["pull", t + rng.choice([0, 1, -1])])
            else:
                push()
            continue
        hi = pubs[-1]
        if rng.random() < (0.6 if plateau else 0.4) or prev >= hi:
            if prev >= hi and rng.random() < 0.15 and not pulled_later and len(pubs) == 1:
                ops.append(["pull", pubs[0]])    # repeated initial pull
                continue
            push()
            continue
        if malformed and rng.random() < 0.35:
            ops.append(["pull", rng.choice([pubs[0] - 1, hi + 1, pubs[0] - rng.choice(gaps), hi + rng.choice(gaps)])])
            continue
        if not pulled_later and rng.random() < 0.1:
            ops.append(["pull", pubs[0]])        # initial pull after several publications
            continue
        # a pull strictly later than prev, at most hi
        ivs = [i for i in range(len(pubs) - 1) if pubs[i + 1] > prev]
        mode = rng.random()
        if mode < 0.2:
            cands = [p for p in pubs if p > prev]
            r = rng.choice(cands[:3])                                   # exactly on a publication
        elif mode < 0.75 and ivs:
            k = rng.choice(ivs[:1] * 3 + ivs[:3])                       # same interval (finer) or a later one (coarser)
            a, b = pubs[k], pubs[k + 1]
            sub = rng.random()
            if sub < 0.3 and step is not None:
                r = a + (b - a) * step[0] // step[1] + rng.choice([0, 0, 1, -1])
            elif sub < 0.55:
                r = a + (b - a) * rng.choice([1, 2, 3]) // 4
            elif sub < 0.7:
                r = rng.choice([prev + 1, a + 1, b - 1])
            else:
                r = rng.randint(a, b)
        elif mode < 0.9:
            r = rng.randint(prev + 1, hi)
        else:
            r = prev + rng.choice(gaps) * rng.choice([1, 2, 3]) // rng.choice([1, 2, 3, 7])  # incommensurable stride
        r = min(max(r, prev + 1), hi)
        ops.append(["pull", r])
        prev = r
        pulled_later = True
    return {"adapter": adapter, "step": step, "per_time": per_time, "init": rng.choice(INITS) if adapter == "sum" else 0,
            "units": rng.choice(UNITS), "shape": shape, "exact": exact,
            "mem": rng.choice([0, "mid", "huge"]) if rng.random() < 0.25 else None, "missing": missing,
            "flip": [rng.random() < 0.6 for _ in shape] if (shape and rng.random() < 0.3) else None, "ops": ops}


def _daily(vals):
    return [["push", d * DAY, [float(v)]] for d, v in enumerate(vals)]


def _case(adapter, step, per_time, ops, units="mm/d", init=0, shape=None, exact=False, mem=None, missing=None, flip=None):
    return {"adapter": adapter, "step": step, "per_time": per_time, "init": init, "units": units,
            "shape": shape or [], "exact": exact, "mem": mem, "missing": missing, "flip": flip, "ops": ops}


def _layout_witness(adapter, step, per_time, flip, units="mm/d"):
    """3 x 2 cells, every cell with its own series; the consumer's y (or x) axis runs the other way (seeded C12_m)"""
    series = [[1, 4, 2, 8], [3, 3, 9, 1], [0, 5, 5, 2], [7, 1, 6, 6], [2, 8, 0, 3], [9, 2, 4, 5]]
    ops = [["push", 0, [float(c[0]) for c in series]], ["pull", 0]]
    for d in range(1, 4):
        ops.append(["push", d * DAY, [float(c[d]) for c in series]])
    ops += [["pull", DAY // 2], ["pull", DAY + DAY // 4], ["pull", 3 * DAY]]
    return _case(adapter, step, per_time, ops, units=units, shape=[3, 2], flip=flip)


def _missing_witness(adapter, step, per_time, missing, units="mm/d", mem=None):
    """one publication with a missing cell; the pulls after the NEXT publication do not touch it (seeded C12_g)"""
    ops = [["push", 0, [1.0, 2.0], [0, 0]], ["pull", 0], ["push", 8, [3.0, 5.0], [0, 1]], ["pull", 4], ["pull", 8],
           ["push", 16, [2.0, 4.0], [0, 0]], ["pull", 12], ["push", 24, [6.0, 1.0], [0, 0]], ["pull", 16], ["pull", 20],
           ["push", 32, [0.5, 7.0], [1, 0]], ["pull", 24], ["pull", 28], ["pull", 32]]
    return _case(adapter, step, per_time, ops, units=units, shape=[2], mem=mem, missing=missing)


def _six_hourly(days):
    return [["pull", k * DAY // 4] for k in range(0, 4 * days + 1)]


def _plateau_series(stride, days=9, **kw):
    """daily series with plateaus (3 x 7, 4 x 0), consumer with the given stride (seeded C12_f)"""
    vals = [3, 7, 7, 7, 2, 0, 0, 0, 0, 5]
    ops = [["push", 0, [float(vals[0])]], ["pull", 0]]
    nxt = stride
    for d in range(1, days + 1):
        ops.append(["push", d * DAY, [float(vals[d])]])
        while nxt <= d * DAY:
            ops.append(["pull", nxt])
            nxt += stride
    return ops


def _notified_witness(adapter, step, per_time, units="mm/d"):
    """push-driven consumer: the pull made inside each notification integrates up to the new publication"""
    ops = [["push", 0, [1.0]], ["push", 8, [3.0]], ["push", 12, [-2.0]], ["pull", 13], ["push", 28, [0.5]]]
    return dict(_case(adapter, step, per_time, ops, units=units), notified=True)


CORPUS = [
    _notified_witness("avg", None, False), _notified_witness("sum", [1, 4], True, units="m/s"),
    _notified_witness("sum", None, False, units="m"),
    _layout_witness("sum", None, True, [False, True]), _layout_witness("sum", [3, 10], False, [False, True], units="mm"),
    _layout_witness("sum", [0, 1], True, [True, False], units="m/s"), _layout_witness("avg", None, False, [True, True]),
    _missing_witness("avg", None, False, "nan"), _missing_witness("avg", [1, 2], False, "mask"),
    _missing_witness("sum", None, True, "mask"), _missing_witness("sum", [0, 1], True, "nan", units="m/s"),
    _missing_witness("sum", None, False, "nan", units="m"), _missing_witness("sum", [1, 4], False, "mask", units="m", mem=0),
    # plateaus in the source series: every published interval counts in an absolute sum, equal values or not
    _case("sum", None, False, _plateau_series(DAY // 4), units="mm"),
    _case("sum", [3, 10], False, _plateau_series(3 * DAY // 2), units="mm"),
    _case("sum", [0, 1], False, _plateau_series(3 * DAY), units="mm", mem=0),
    _case("sum", None, True, _plateau_series(3 * DAY // 8)),
    _case("avg", [1, 1], False, _plateau_series(DAY)),
    _case("sum", [1, 2], False, [["push", 0, [0.0, 1.0]], ["pull", 0], ["push", 4, [0.0, 1.0]], ["push", 8, [0.0, 1.0]],
                                 ["push", 16, [0.0, 1.0]], ["pull", 3], ["pull", 16], ["push", 32, [2.0, 1.0]], ["pull", 32]],
          units="m", shape=[2], exact=True),
    # spilled buffer, consumer finer than the source: several pulls between publications, the first of them trims
    # the buffer (seeded C12_d)
    _case("avg", None, False, _daily([1, 2, 4, 8]) + _six_hourly(3), mem=0),
    _case("sum", [1, 2], True, [["push", d * DAY, [float(v), float(-v)]] for d, v in enumerate([1, 2, 4, 8])] + _six_hourly(3),
          mem="mid", shape=[2], units="m/s"),
    _case("sum", None, False, [["push", 0, [1.0]], ["pull", 0], ["push", 8, [3.0]], ["pull", 2], ["pull", 4], ["push", 16, [-2.0]],
                               ["pull", 9], ["pull", 10], ["pull", 12], ["push", 32, [0.5]], ["pull", 17], ["pull", 20], ["pull", 32]],
          units="m", exact=True, mem=0),
    # tests/adapters/test_time_integration.py style: daily series, pulls every 12h / 36h
    _case("avg", None, False, _daily([1, 2]) + [["pull", 0], ["pull", DAY // 2], ["pull", DAY]] + [["push", 2 * DAY, [4.0]]]
          + [["pull", DAY + DAY // 2], ["pull", 2 * DAY]]),
    _case("sum", [0, 1], True, _daily([1, 2, 4, 8]) + [["pull", 0], ["pull", DAY // 2], ["pull", 2 * DAY], ["pull", 3 * DAY]], init=DAY),
    _case("sum", None, True, _daily([1, 2, 4, 8]) + [["pull", 0], ["pull", DAY + 1], ["pull", 3 * DAY - 1], ["pull", 3 * DAY]], units="m/s"),
    # coarser than the source steps, crossing several publications; first pull later than the first publication
    _case("sum", [1, 4], False, [["push", 0, [1.0]], ["push", 8, [2.0]], ["push", 16, [-3.0]], ["push", 32, [0.5]],
                                  ["pull", 2], ["pull", 3], ["pull", 26], ["pull", 32]], units="m", exact=True),
    # incommensurable strides: 7us pulls on 3us / 5us publications
    _case("avg", [1, 2], False, [["push", 0, [1.0]], ["pull", 0]] + [x for k in range(1, 9) for x in
                                 ([["push", 3 * k + (k % 2), [float(k * k % 5)]]])] +
          [["pull", 7], ["pull", 14], ["pull", 21], ["pull", 24]], units=""),
    # out-of-range pulls do not disturb the lower integration bound
    _case("sum", None, True, [["pull", 0], ["push", 5, [1.5]], ["pull", 4], ["pull", 5], ["push", 9, [2.5]], ["pull", 10],
                              ["pull", 7], ["push", 21, [0.25]], ["pull", 3], ["pull", 20], ["pull", 21]], units="1/d", init=1),
    _case("avg", None, False, [["push", 0, [1.0, -1.0]], ["push", 4, [3.0, 0.5]], ["pull", 0], ["pull", 4], ["push", 12, [4.0, 8.5]],
                               ["pull", 6], ["pull", 13], ["pull", 12]], shape=[2]),
]


def generate(rng, tier):
    n = 1200 if tier == "quick" else 48000
    cases = list(CORPUS)
    for i in range(n):
        c = _gen_case(rng, i, malformed=(i % 6 == 5))
        # push-driven consumer: pulls exactly at every publication, inside the notification (p0 < p1 = publication time)
        cases.append(make_notified(c, keep_latest=False) if i % 11 == 7 else c)
    return cases


def make_adapter(case):
    step = None if case["step"] is None else case["step"][0] / case["step"][1]
    if case["adapter"] == "avg":
        return fm.adapters.AvgOverTime(step=step)
    return fm.adapters.SumOverTime(step=step, per_time=case["per_time"], initial_interval=D(case["init"]))


def _run_link(case, ghost):
    t0 = T(0)
    shape = case["shape"]
    grid = make_grid(shape)
    n = int(np.prod(shape)) if shape else 1
    out = fm.Output(name="Out")
    inp = fm.CallbackInput(lambda caller, time: pull_once(time), name="In") if case.get("notified") else fm.Input(name="In")
    ada = make_adapter(case)
    set_memory(ada, case, n)
    out >> ada >> inp
    inp.ping()
    # the consumer may describe the same grid in another (compatible) layout; what it receives for a cell,
    # identified by the cell's coordinates, must be the integral of the series published for that cell
    cgrid = consumer_grid(shape, case.get("flip")) if case.get("flip") else grid
    out.push_info(fm.Info(time=t0, grid=grid, units=case["units"]))
    inp.exchange_info(fm.Info(time=t0, grid=cgrid, units=None))
    ureg = fm.UNITS
    u_in = ureg.Unit(case["units"])
    scaled = case["adapter"] == "sum" and case["per_time"]
    u_norm = u_in * ureg.Unit("s") if scaled else u_in
    info_units = inp.info.units
    unit_obs = {
        "info_units": str(info_units),
        "dims_ok": bool(ureg.Unit(info_units).dimensionality == u_norm.dimensionality),
        "reduced_ok": bool((1.0 * ureg.Unit(info_units)).to_reduced_units().units == ureg.Unit(info_units)) if scaled
                      else bool(ureg.Unit(info_units) == u_in),
    }
    pulls = []
    data_units_ok = True
    has_missing = any(op[0] == "push" and len(op) > 3 for op in case["ops"])
    def pull_once(time):
        nonlocal data_units_ok
        try:
            d = inp.pull_data(time)
            if d.units != ureg.Unit(info_units):
                data_units_ok = False
            dn = d.to(u_norm) if scaled else d
            m = magnitude(dn)
            if has_missing:
                raw = to_source_cells(np.asarray(np.ma.getdata(m), dtype=float), grid, cgrid, shape)
                bits = [int(b or np.isnan(x)) for x, b in zip(raw, to_source_cells(np.ma.getmaskarray(m), grid, cgrid, shape))]
                # a missing cell (masked or NaN) carries no value
                pulls.append(["ok", [0.0 if b else float(x) for x, b in zip(raw, bits)], bits])
                return
            vals = [float(x) for x in to_source_cells(np.asarray(m, dtype=float), grid, cgrid, shape)]
            pulls.append(["ok", vals])
        except Exception as e:  # noqa
            pulls.append([err_class(e)])

    try:
        for op in case["ops"]:
            if op[0] == "push":
                vs = ghost_values(op[2]) if ghost else op[2]
                data = np.array(vs, dtype=float).reshape(shape) if shape else float(vs[0])
                if len(op) > 3:
                    flags = np.array(op[3], dtype=bool).reshape(shape)
                    if case.get("missing") == "mask":
                        data = np.ma.masked_array(data, mask=flags)
                    else:
                        data[flags] = np.nan
                out.push_data(data, T(op[1]))
            else:
                pull_once(T(op[1]))
    finally:
        end_of_link(ada)
    unit_obs["data_units_ok"] = data_units_ok
    return {"n": n, "pulls": pulls, "unit": unit_obs}


def run_impl(case):
    freeze_once()
    if case.get("mem") is not None:
        gc.collect()
        _run_link(case, ghost=True)     # an earlier coupling in the same process / spill directory
        gc.collect()
    return _run_link(case, ghost=False)


def coq_case(case, obs):
    ops = []
    for op in request_ops(case):
        if op[0] == "push":
            if len(op) > 3:
                ops.append(C("VPushM", Z(op[1]), L(Qf(v) for v in op[2]), L(B(b) for b in op[3])))
            else:
                ops.append(C("VPush", Z(op[1]), L(Qf(v) for v in op[2])))
        else:
            ops.append(C("VPull", Z(op[1])))
    st = NONE if case["step"] is None else Some(Q(Fraction(case["step"][0], case["step"][1])))
    cfg = C("mk_cfg", B(case["adapter"] == "avg"), st, B(case["per_time"]), Z(case["init"]))
    return C("mk_case12", cfg, N(obs["n"]), B(case["exact"]), L(ops))


def coq_obs(case, obs):
    return _c11_coq_obs(case, obs)


# ----------------------------------------------------------------------------
# property monitor
# ----------------------------------------------------------------------------
def exact_integral(times, vals, step, a, b, scaled):
    """Integral over [a,b] of the linear (step is None) or step interpolant of the series, by splitting at all
    break points.  scaled: in value x seconds; else every interval contributes with its relative weight."""
    total = Fraction(0)
    contributing = []
    for i in range(len(times) - 1):
        t0, t1 = times[i], times[i + 1]
        lo, hi = max(a, t0), min(b, t1)
        if lo >= hi:
            continue
        v0, v1 = vals[i], vals[i + 1]
        contributing += [v0, v1]
        length = Fraction(t1 - t0)
        if step is None:
            f = lambda x: v0 + Fraction(x - t0) / length * (v1 - v0)  # noqa
            area = (f(lo) + f(hi)) / 2 * (hi - lo)
        else:
            ts = t0 + Fraction(step[0], step[1]) * length        # old value up to and including ts
            area = v0 * max(Fraction(0), min(Fraction(hi), ts) - lo) + v1 * max(Fraction(0), hi - max(Fraction(lo), ts))
        total += area / 10**6 if scaled else area / length
    return total, contributing


def _walk(case, obs):
    times, vals, miss = [], [], []
    prev = None
    it = iter(obs["pulls"])
    n = obs["n"]
    fails = []
    st = {"pubs": 0, "strict": 0, "spans": 0, "inside": 0, "delivered": [Fraction(0)] * n, "first_prev": None, "last": None}
    avg = case["adapter"] == "avg"
    scaled = avg or case["per_time"]
    tol = Fraction(1, 10**9)
    incomplete = set()      # cells for which some delivery was missing: no total to conserve
    for op in request_ops(case):
        if op[0] == "push":
            if times and op[1] <= times[-1]:
                return fails, st
            times.append(op[1])
            vals.append([Fraction(v) for v in op[2]])
            miss.append([bool(b) for b in op[3]] if len(op) > 3 else [False] * len(op[2]))
            st["pubs"] += 1
            if prev is None:
                prev = op[1]
                st["first_prev"] = prev
            continue
        t = op[1]
        r = next(it)
        if not times:
            if r != ["NoDataError"]:
                fails.append(f"pull at {t} before any publication returned {r}")
            continue
        if t < times[0] or t > times[-1]:
            if r != ["TimeError"]:
                fails.append(f"pull at {t} outside the published range [{times[0]},{times[-1]}] returned {r}")
            continue
        if t < prev or (t == prev and t != times[0]):
            return fails, st            # p0 >= p1 (not the initial pull): outside the domain from here on
        if r[0] == "ok" and not all(np.isfinite(v) for v in r[1]):
            fails.append(f"pull at {t} delivered a non-finite value {r[1]}")
            return fails, st
        if r[0] != "ok" or len(r[1]) != n:
            fails.append(f"pull at {t} (previous pull {prev}, range [{times[0]},{times[-1]}]) returned {r}")
            prev = t
            continue
        got_missing = r[2] if len(r) > 2 else [0] * n
        if t == prev:
            # initial pull: the first published value (x initial_interval for per-time sums)
            for j in range(n):
                if bool(got_missing[j]) != miss[0][j]:
                    fails.append(f"initial pull at {t} cell {j}: delivered {'a missing value' if got_missing[j] else repr(r[1][j])}, "
                                 f"the first publication {'has it missing' if miss[0][j] else 'has a value there'}")
                    break
                if miss[0][j]:
                    continue
                want = vals[0][j] * (Fraction(case["init"], 10**6) if (not avg and case["per_time"]) else 1)
                if abs(Fraction(r[1][j]) - want) > tol * (1 + abs(want)):
                    fails.append(f"initial pull at {t} component {j}: delivered {r[1][j]!r}, expected {float(want)!r}")
                    break
            continue
        st["strict"] += 1
        if bisect_right(times, prev) - 1 != bisect_left(times, t) - 1 or t in times:
            st["spans"] += 1
        if t not in times or prev not in times:
            st["inside"] += 1
        for j in range(n):
            col = [v[j] for v in vals]
            # a cell is missing in the result iff it is missing in a publication that bounds an interval
            # meeting (p0, p1); publications the pull does not touch must not leak
            want_missing = any((miss[i][j] or miss[i + 1][j]) for i in range(len(times) - 1)
                               if times[i] < t and times[i + 1] > prev)
            if bool(got_missing[j]) != want_missing:
                fails.append(f"{case['adapter']} over [{prev},{t}] cell {j}: delivered {'a missing value' if got_missing[j] else repr(r[1][j])}, "
                             f"but the publications bounding the intervals that meet ({prev},{t}) "
                             f"{'have it missing' if want_missing else 'all have a value there'}")
                break
            if want_missing:
                incomplete.add(j)
                continue
            integ, contrib = exact_integral(times, col, case["step"], prev, t, scaled)
            got = Fraction(r[1][j])
            scale = 1 + max(abs(x) for x in col)
            if avg:
                want = integ / Fraction(t - prev, 10**6)
                # dt2 - dt1 is a difference of doubles relative to the source interval: rounding is amplified
                # by (source interval)/(p1 - p0)
                scale *= 1 + Fraction(times[-1] - times[0], t - prev)
                if abs(got - want) > tol * scale:
                    fails.append(f"average over [{prev},{t}] component {j}: delivered {float(got)!r}, integral/(p1-p0) is {float(want)!r}")
                    break
                if not (min(contrib) - tol * scale <= got <= max(contrib) + tol * scale):
                    fails.append(f"average over [{prev},{t}] component {j}: {float(got)!r} outside the range "
                                 f"[{float(min(contrib))!r},{float(max(contrib))!r}] of the contributing values")
                    break
            else:
                want = integ
                wscale = scale * (1 + (Fraction(times[-1] - times[0], 10**6) if scaled else len(times)))
                if abs(got - want) > tol * wscale:
                    fails.append(f"sum over [{prev},{t}] component {j}: delivered {float(got)!r}, exact integral is {float(want)!r}")
                    break
                st["delivered"][j] += got
        prev = t
        st["last"] = t
    # conservation over the whole script: the total delivered equals the integral over [first p0, last p1]
    if not avg and st["last"] is not None and not fails:
        for j in range(n):
            if j in incomplete:
                continue
            col = [v[j] for v in vals]
            integ, _ = exact_integral(times, col, case["step"], st["first_prev"], st["last"], scaled)
            scale = (1 + max(abs(x) for x in col)) * (1 + (Fraction(times[-1] - times[0], 10**6) if scaled else len(times)))
            if abs(st["delivered"][j] - integ) > tol * scale:
                fails.append(f"conservation: component {j} total delivered over [{st['first_prev']},{st['last']}] is "
                             f"{float(st['delivered'][j])!r}, the integral over the period is {float(integ)!r}")
                break
    return fails, st


def monitor(case, obs):
    u = obs["unit"]
    if not u["dims_ok"]:
        return f"delivered units {u['info_units']!r} do not have the dimensionality of source units" + \
               (" x time" if case["adapter"] == "sum" and case["per_time"] else "")
    if not u["reduced_ok"]:
        return f"delivered units {u['info_units']!r} are not reduced / differ from the source units"
    if not u["data_units_ok"]:
        return "delivered data carries units different from the exchanged info"
    fails, _ = _walk(case, obs)
    return fails[0] if fails else None


def nontrivial(case, obs):
    fails, st = _walk(case, obs)
    return st["pubs"] >= 3 and st["strict"] >= 2 and st["spans"] >= 1 and st["inside"] >= 1


def _has_plateau(case):
    vs = [op[2] for op in case["ops"] if op[0] == "push"]
    return any(vs[i] == vs[i + 1] == vs[i + 2] for i in range(len(vs) - 2))


def distribution(cases, obss):
    ad = Counter((c["adapter"] + ("/per_time" if c["per_time"] else "/abs" if c["adapter"] == "sum" else "")
                  + ("/linear" if c["step"] is None else "/step")) for c in cases)
    steps = Counter(f"{c['step'][0]}/{c['step'][1]}" for c in cases if c["step"])
    shapes = Counter("x".join(map(str, c["shape"])) or "scalar" for c in cases)
    units = Counter(c["units"] or "dimensionless" for c in cases)
    out_units = Counter(o["unit"]["info_units"] for o in obss if "unit" in o)
    res = Counter(r[0] for o in obss if "pulls" in o for r in o["pulls"])
    return {"adapters": dict(ad), "step_positions": dict(steps), "payload_shapes": dict(shapes), "source_units": dict(units),
            "delivered_units": dict(out_units), "pull_results": dict(res),
            "memory_limit": dict(Counter(str(c.get("mem")) for c in cases)),
            "push_driven_consumer": sum(1 for c in cases if c.get("notified")),
            "consumer_grid_layout_differs": sum(1 for c in cases if c.get("flip") and any(c["flip"])),
            "missing_values": dict(Counter(str(c.get("missing")) for c in cases)),
            "series_with_plateau_of_3_or_more": sum(1 for c in cases if _has_plateau(c)),
            "exact_dyadic_cases": sum(1 for c in cases if c["exact"])}


def shrink_candidates(case):
    ops = case["ops"]
    if case["shape"]:
        if not any(o[0] == "push" and len(o) > 3 for o in ops):
            yield dict(case, shape=[], flip=None, ops=[[o[0], o[1], o[2][:1]] if o[0] == "push" else o for o in ops])
    for i in range(len(ops) - 1, -1, -1):
        yield dict(case, ops=ops[:i] + ops[i + 1:])
