"""C03 — a run terminates, reaches the end time, and walks each life cycle once.

Correspondence as for C01 (outcome, update sequence and final times of the REAL Composition.run equal the model's; a
hang is mapped to a harness error and can never agree with the model).  Monitor: final times, strict monotonicity,
no update after every component reached the end time, the call history of every component, adapter finalisation."""
from . import sched_common as sc
from .sched_common import COQ_IMPORTS, TRUSTED, coq_case  # noqa: F401
from ..coqgen import L, N, P
from . import c01
from .builtin_family import gen_builtin as _gen_builtin, run_builtin as _run_builtin, monitor_builtin as _monitor_builtin

ID = "C03"
COQ_CHECK = "c03_check"
COQ_MODEL_OBS = None

_CALL = {"I": "KI", "C": "KC", "V": "KV", "U": "KU", "F": "KF"}


def coq_obs(case, obs):
    calls = L(L(_CALL.get(ch, "KF") for ch in c) for c in obs["calls"])
    fins = L(N(min(x[3], 4000)) for x in obs["fin"])
    return P(sc.coq_obs(case, obs), calls, fins)

RULE = (
    "compositions as for C01; end times before / at / after the start and on / off the step grids of the components; "
    "non-trivial = the end time is off the step grid of at least one component and the run performs at least 3 "
    "updates; distinct by canonical case hash"
)
ASSUMPTIONS = c01.ASSUMPTIONS + ["wall-clock hangs in user code are outside the model (a hang of the harness run is reported as a disagreement)"]
CASE_TIMEOUT = 60
CORPUS = c01.CORPUS[:5]


def generate(rng, tier):
    n = 260 if tier == "quick" else 5000
    cases = list(CORPUS)
    for i in range(n):
        m = i % 10
        case = sc.gen_dag(rng) if m < 7 else (sc.gen_ring(rng, sufficient=True) if m < 9 else sc.gen_branching(rng))
        if m == 3:
            starts = [c["start"] for c in case["comps"] if c["kind"] == "T"]
            case["end"] = min(starts) - rng.choice([0, 1, 1000])  # end at / before the start: exactly one update
        if i % 6 == 5:
            case = sc.with_lazy_time(case)     # starting times known only from the connect phase on
        elif i % 2 == 0:
            case["autostart"] = True           # no explicit start time: the composition takes the earliest component's
        cases.append(case)
    # a pull-based component reached twice within one pass of the driver (two outputs / one output read twice / in series)
    for g in (sc.gen_relay2, sc.gen_relay_twice, sc.gen_two_relays, sc.gen_pull_ring):
        for _ in range(4 if tier == "quick" else 60):
            cases.append(g(rng))
    # metadata known only in the connect phase on both ends of several links (seeded C05_s): the run must still start,
    # reach the end time and walk every life cycle once, whichever round exchanges which input
    for _ in range(8 if tier == "quick" else 120):
        cases.append(sc.gen_lazy_infos(rng))
    # finam's OWN components (generators, callback component, time trigger, debug consumer) with timedelta and CALENDAR
    # steps: run by the real driver, judged by the property monitor only (no Coq model of these classes)
    for _ in range(24 if tier == "quick" else 400):
        cases.append(_gen_builtin(rng))
    return cases


def model_applies(case):
    return "builtin" not in case


def run_impl(case):
    if "builtin" in case:
        return _run_builtin(case["builtin"])
    return sc.run_impl(case)




def monitor(case, obs):
    if "builtin" in case:
        return _monitor_builtin(case, obs)
    comps = case["comps"]
    if obs["phase"] != "run":
        return f"connect phase failed with {obs['outcome']}"
    if obs["outcome"] != "ok":
        if obs["outcome"] == "CircularCoupling" and sc.has_cycle(case):
            return None
        return f"run of a valid composition ended with {obs['outcome']}"
    end = case["end"]
    for k, c in enumerate(comps):
        if c["kind"] == "T" and obs["times"][k] < end:
            return f"run returned with C{k} at {obs['times'][k]} < end time {end}"
    t0 = obs["t0"]
    first = True
    for _, u, newt, before, _ in ((a, b, c_, d, e) for a, b, c_, d, e in sc.replay_times_cnt(case, obs)):
        if newt <= before[u]:
            return f"time of C{u} did not increase: {before[u]} -> {newt}"
        if end > t0 and all(t >= end for t in before.values()):
            return f"C{u} was updated although every component had reached the end time {end} (times {before})"
        first = False
    f = sc.lifecycle_failure(case, obs)
    if f:
        return f
    nupd = {k: 0 for k in range(len(comps))}
    for e in obs["events"]:
        if e[0] == "U":
            nupd[e[1]] += 1
    for k, calls in enumerate(obs["calls"]):
        if comps[k]["kind"] == "T" and calls.count("U") != nupd[k]:
            return f"C{k}: {calls.count('U')} update calls but {nupd[k]} update events"
    return None


def nontrivial(case, obs):
    if "builtin" in case:
        return len(obs.get("mid_times", [])) >= 3
    nupd = sum(1 for e in obs["events"] if e[0] == "U")
    if nupd < 3:
        return False
    for c in case["comps"]:
        if c["kind"] != "T":
            continue
        t = c["start"]
        k = 0
        while t < case["end"] and k < 10000:
            t += c["steps"][k % len(c["steps"])]
            k += 1
        if t != case["end"]:
            return True
    return False


classifiers = c01.classifiers


def shrink_candidates(case):
    if "builtin" in case:
        return
    yield from sc.shrink_candidates(case)


def distribution(cases, obss):
    pairs = [(c, o) for c, o in zip(cases, obss) if "builtin" not in c]
    d = sc.distribution([c for c, _ in pairs], [o for _, o in pairs])
    d["builtin_component_cases"] = len(cases) - len(pairs)
    return d
