"""C04 — unresolvable dependency cycles are reported; delay-resolved cycles run.

Correspondence as for C01 on cyclic compositions.  Monitor: a cycle without any delay / dependency-breaking adapter
among components with a common start time ends with a circular-coupling error; a composition in which every cycle
carries fixed delays summing to at least the sum of the largest steps of its components completes; no run ends with
a hang, unbounded recursion, a data/time error or any other exception."""
from . import sched_common as sc
from .sched_common import COQ_IMPORTS, TRUSTED, run_impl, distribution  # noqa: F401
from ..coqgen import B, C, L, N, P
from . import c01

ID = "C04"
COQ_CHECK = "c04_check2"
COQ_MODEL_OBS = None
RULE = (
    "rings of 2-5 time components (with chords, tails, pass-through adapters and buffering adapters at the source "
    "end) whose fixed delays are split over 1-3 adapters per link and sum to just below / exactly / above the sum of "
    "the largest steps; undelayed rings with equal starts; cyclic random graphs with pull-based components; "
    "non-trivial = the graph has a cycle; distinct by canonical case hash"
)
ASSUMPTIONS = c01.ASSUMPTIONS
CASE_TIMEOUT = 60

CORPUS = [c01.CORPUS[1], c01.CORPUS[2],
          # true cycle through a pull-based component (F9: used to raise TypeError)
          {"comps": [{"kind": "T", "start": 0, "steps": [3 * sc.DAY], "initpull": False, "nout": 1,
                      "inputs": [{"src": [1, 0], "chain": []}]},
                     {"kind": "P", "nout": 1, "inputs": [{"src": [0, 0], "chain": []}]}],
           "end": 10 * sc.DAY},
          # F17 (fixed): delay-resolved cycle P -> B -(10d)-> P entered through another, lagging consumer of P
          {"comps": [{"kind": "T", "start": 0, "steps": [5 * sc.DAY], "initpull": False, "nout": 0, "inputs": [{"src": [1, 0], "chain": []}]},
                     {"kind": "P", "nout": 1, "inputs": [{"src": [2, 0], "chain": []}]},
                     {"kind": "T", "start": 0, "steps": [sc.DAY], "initpull": False, "nout": 1,
                      "inputs": [{"src": [1, 0], "chain": [["fixed", 10 * sc.DAY]]}]}],
           "end": 5 * sc.DAY},
          # cycle in the initial exchange plus a component that does connect (the stall must still be noticed)
          {"comps": [{"kind": "T", "start": 0, "steps": [2], "initpull": True, "pap": True, "nout": 1, "inputs": [{"src": [1, 0], "chain": []}]},
                     {"kind": "T", "start": 0, "steps": [3], "initpull": True, "pap": True, "nout": 1, "inputs": [{"src": [0, 0], "chain": []}, {"src": [2, 0], "chain": []}]},
                     {"kind": "T", "start": 0, "steps": [1], "initpull": False, "nout": 1, "inputs": []}],
           "end": 10},
          # undelayed ring of two
          {"comps": [{"kind": "T", "start": 0, "steps": [2], "initpull": False, "nout": 1, "inputs": [{"src": [1, 0], "chain": [["pass"]]}]},
                     {"kind": "T", "start": 0, "steps": [3], "initpull": False, "nout": 1, "inputs": [{"src": [0, 0], "chain": []}]}],
           "end": 10}]


COQ_IMPORTS = COQ_IMPORTS.rstrip(".") + " SchedSparse C04Mix."


def coq_case(case, obs):
    if sc.has_push_comp(case):
        return C("C4Push", sc.coq_case(sc.push_as_pull(case), obs))
    paps = L(B(bool(c.get("pap"))) for c in case["comps"])
    return C("C4Std", P(sc.coq_case(case, obs), paps))


def coq_obs(case, obs):
    if obs.get("phase") == "connect" and obs.get("outcome") == "CircularCoupling" and obs.get("stuck") is not None:
        return P(L(N(k) for k in obs["stuck"]), "(OOk, [], [])")
    return P("(@nil nat)", sc.coq_obs(case, obs))


def shrink_candidates(case):
    if sc.has_push_comp(case):
        return
    for c in sc.shrink_candidates(case):
        yield c


def connect_ring(rng):
    """rings (plus tails / unrelated components that do connect) whose members provide their initial data only
    after their initial pulls succeeded: a cycle in the initial exchange, to be reported by connect()"""
    n = rng.choice([2, 2, 3, 4])
    unit = rng.choice(sc.UNITS)
    comps = [{"kind": "T", "start": 0, "steps": [unit * rng.choice([1, 2, 3])], "initpull": True, "nout": 1,
              "pap": True, "inputs": [{"src": [(k - 1) % n, 0], "chain": [["pass"]] if rng.random() < 0.3 else []}]}
             for k in range(n)]
    if rng.random() < 0.6:
        # one member does not wait: the cycle is broken and connect succeeds (fixed delay makes the run work too)
        k = rng.randrange(n)
        comps[k]["pap"] = False
        for c in comps:
            c["inputs"][0]["chain"] = c["inputs"][0]["chain"] + [["fixed", max(max(x["steps"]) for x in comps)]]
    # components that do connect: a source feeding the ring, a sink fed by it, an unrelated pair
    extra = rng.choice(["none", "source", "sink", "unrelated", "source+sink"])
    if "source" in extra:
        comps.append({"kind": "T", "start": 0, "steps": [unit], "initpull": False, "nout": 1, "inputs": []})
        comps[rng.randrange(n)]["inputs"].append({"src": [len(comps) - 1, 0], "chain": []})
    if "sink" in extra:
        comps.append({"kind": "T", "start": 0, "steps": [unit * 2], "initpull": rng.random() < 0.5, "nout": 0,
                      "inputs": [{"src": [rng.randrange(n), 0], "chain": []}]})
    if extra == "unrelated":
        comps.append({"kind": "T", "start": 0, "steps": [unit], "initpull": False, "nout": 1, "inputs": []})
        comps.append({"kind": "T", "start": 0, "steps": [unit], "initpull": True, "nout": 0,
                      "inputs": [{"src": [len(comps) - 1, 0], "chain": []}]})
    order = list(range(len(comps)))
    rng.shuffle(order)
    comps = sc.permute(comps, order)
    return {"comps": comps, "end": unit * rng.choice([2, 4, 6])}


def undelayed_ring(rng):
    case = sc.gen_ring(rng, sufficient=True)
    for c in case["comps"]:
        for i in c["inputs"]:
            i["chain"] = [a for a in i["chain"] if a[0] == "pass"]
        c["start"] = 0
    return case


def generate(rng, tier):
    n = 260 if tier == "quick" else 5000
    cases = list(CORPUS)
    for i in range(n):
        m = i % 10
        if m < 4:
            cases.append(sc.gen_ring(rng, sufficient=True))
        elif m < 6:
            cases.append(sc.gen_ring(rng, sufficient=False))
        elif m < 7:
            cases.append(sc.gen_ring_mixed(rng))
        elif m < 8:
            cases.append([undelayed_ring, connect_ring, sc.gen_relay2_ring, sc.gen_pull_ring, sc.gen_ring_staggered, sc.gen_ring_mixed][(i // 10) % 6](rng))
        else:
            cases.append(sc.gen_dag(rng, cyclic=True, late_start=False))
    # every special family a fixed number of times (the rotation above reaches each about four times per quick run)
    for g in (undelayed_ring, connect_ring, sc.gen_relay2_ring, sc.gen_pull_ring, sc.gen_ring_staggered, sc.gen_ring_mixed):
        for _ in range(8 if tier == "quick" else 120):
            cases.append(g(rng))
    # rings resolved by a CALENDAR delay: monitor only (outside the integer-time Coq model)
    for _ in range(20 if tier == "quick" else 300):
        cases.append(sc.gen_calendar_ring(rng))
    # the consumer behind a DelayToPull asks for times before its (later starting) source's first publication
    for _ in range(24 if tier == "quick" else 400):
        cases.append(sc.gen_ring_staggered(rng, kind="topull", src_late=True))
    # rings through a PUSH-based component with outputs: monitor only (outside the model's component kinds)
    for _ in range(24 if tier == "quick" else 400):
        cases.append(sc.gen_push_merger(rng))
    return cases


def model_applies(case):
    return not sc.has_calendar(case)


def cycles_of(case):
    """simple cycles of the component graph as lists of (consumer, input index) edges (small graphs only)"""
    comps = case["comps"]
    n = len(comps)
    out = []

    def dfs(start, u, path, seen):
        for i, inp in enumerate(comps[u]["inputs"]):
            if sc.is_static_src(comps, inp["src"]):
                continue  # a static output is never a dependency
            v = inp["src"][0]
            if v == start:
                out.append(path + [(u, i)])
            elif v > start and v not in seen and len(out) < 200:
                dfs(start, v, path + [(u, i)], seen | {v})

    for s in range(n):
        dfs(s, s, [], {s})
    return out


def classify(case):
    """'sufficient' | 'undelayed' | 'other' | 'acyclic' for the statement's two halves"""
    comps = case["comps"]
    cyc = cycles_of(case)
    if not cyc:
        return "acyclic"
    suff = True
    undelayed = False
    for cy in cyc:
        dsum = 0
        ssum = 0
        plain = True
        for (u, i) in cy:
            ch = comps[u]["inputs"][i]["chain"]
            pulled = []
            for a in ch:
                if a[0] == "buf":
                    break
                pulled.append(a)
            if any(a[0] in ("topull", "topush") for a in pulled):
                suff = False  # only fixed delays count for the sufficient-delay half of the statement
                plain = False
            if any(a[0] == "fixed" for a in pulled):
                plain = False
            dsum += sum(a[1] for a in pulled if a[0] == "fixed")
            if comps[u]["kind"] == "T":
                ssum += max(comps[u]["steps"])
        if dsum < ssum:
            suff = False
        if plain and all(comps[u]["kind"] == "T" for (u, _) in cy) and len({comps[u]["start"] for (u, _) in cy}) == 1:
            undelayed = True
    if suff:
        return "sufficient"
    if undelayed:
        return "undelayed"
    return "other"


def _connect_expect(case):
    """components that cannot complete the initial exchange (least fixed point of 'publishes')"""
    comps = case["comps"]
    n = len(comps)
    pub = [False] * n
    for _ in range(n + 1):
        pub = [not (c.get("pap") and c.get("initpull")) or all(pub[i["src"][0]] for i in c["inputs"]) for c in comps]
    return [k for k, c in enumerate(comps)
            if not (pub[k] and (not c.get("initpull") or all(pub[i["src"][0]] for i in c["inputs"])))]


def monitor(case, obs):
    if sc.has_push_comp(case):
        return sc.monitor_push_merger(case, obs)
    if sc.has_calendar(case):
        # one month of delay on the closing link covers the steps (days) of the ring: the run must complete
        return sc.monitor_calendar(case, obs) or c01.monitor(case, obs)
    exp_stuck = _connect_expect(case)
    if obs["phase"] != "run":
        if obs["outcome"] == "CircularCoupling":
            if not exp_stuck:
                return "connect() reported a circular coupling although the initial exchange is acyclic"
            if obs.get("stuck") is not None and sorted(obs["stuck"]) != exp_stuck:
                return f"connect() listed components {obs['stuck']} as unconnected, the stuck ones are {exp_stuck}"
            return None
        return f"connect phase failed with {obs['outcome']}"
    if exp_stuck:
        return f"connect() succeeded although components {exp_stuck} depend on each other's initial data"
    if obs["outcome"] not in ("ok", "CircularCoupling"):
        return f"run ended with {obs['outcome']} (only success or a circular-coupling error are allowed)"
    k = classify(case)
    if k in ("sufficient", "acyclic") and obs["outcome"] != "ok":
        return f"every cycle carries sufficient delay ({k}) but the run ended with {obs['outcome']}"
    if k == "undelayed" and obs["outcome"] != "CircularCoupling":
        starts = {c["start"] for c in case["comps"] if c["kind"] == "T"}
        if case["end"] > min(starts):
            return "an undelayed cycle among components with a common start time was not reported"
    if obs["outcome"] == "ok":
        return c01.monitor(case, obs)
    return None


def nontrivial(case, obs):
    if sc.has_push_comp(case):
        return case["push_merger"]["ring"]
    return sc.has_cycle(case)


def extra_evidence(cases, obss):
    from collections import Counter
    return {"cycle_classes": dict(Counter("calendar" if sc.has_calendar(c) else "push_based_component" if sc.has_push_comp(c) else classify(c) for c in cases))}


classifiers = c01.classifiers
