"""C13 — delay adapters deliver exactly the source's data for the shifted time.

Correspondence: a REAL bare link  Output >> adapters >> Input  (chains of one to three delay adapters mixed with
pass-through adapters) is driven by scripted publications and pulls; a spy on Output.get_data records the time
argument that reaches the source and which publication is delivered.  The Coq model DelayLink.lrun is evaluated on the
same script.  The driver side ("what the scheduler assumes") is the theorem C13_driver_agrees plus the scheduler runs
of C01/C02.  Monitor: the documented shift of every adapter, composed in pull order, recomputed in Python."""
from ..coqgen import C, L, N, NONE, P, Some, Z
from .. import fin
from ..fin import fm, T, us_of, err_class
from .. import schedlib
from . import sched_common as sc

ID = "C13"
COQ_IMPORTS = "From FV Require Import Base OutputM Sched DelayLink."
CASE_TIMEOUT = 60
COQ_CHECK = "c13_check2"
COQ_MODEL_OBS = None
RULE = (
    "bare links Output >> chain >> Input with chains of 1-3 delay adapters (DelayFixed with delays zero / below / "
    "above / non-multiples of the steps, DelayToPull with 1-4 steps and extra delay, DelayToPush) mixed with Scale, "
    "scripted publications (irregular gaps) and non-decreasing pulls incl. pulls beyond the newest publication; "
    "non-trivial = the start-time clamp is inactive on at least one pull and (chain length >= 2 or a DelayToPull "
    "with >= 2 steps); distinct by canonical case hash"
)
TRUSTED = ["instance-level wrapper of Output.get_data records the time argument reaching the source"]
ASSUMPTIONS = ["the start time of the adapters is the time of the info exchanged on the link (source info time)"]

UNITS = [1, 7, 1000, 3600 * 10**6, sc.DAY]


def _gen(rng):
    unit = rng.choice(UNITS)
    n = rng.choice([1, 1, 1, 2, 2, 3])
    chain = []
    for _ in range(n):
        r = rng.random()
        if r < 0.45:
            chain.append(["fixed", unit * rng.choice([0, 1, 2, 3, 5]) + rng.choice([0, 0, 1, unit // 2])])
        elif r < 0.8:
            chain.append(["topull", rng.choice([1, 1, 2, 3, 4]), unit * rng.choice([0, 0, 1, 2]) + rng.choice([0, 0, 1])])
        else:
            chain.append(["topush"])
    for _ in range(rng.choice([0, 0, 1, 2])):
        chain.insert(rng.randrange(len(chain) + 1), ["pass"])
    init = unit * rng.choice([0, 0, 1, 3])
    ops = [["push", init]]
    tpub = init
    treq = init
    for _ in range(rng.randint(4, 30)):
        if rng.random() < 0.45:
            tpub += unit * rng.choice([1, 1, 2, 3]) + rng.choice([0, 0, 1])
            ops.append(["push", tpub])
        else:
            treq += unit * rng.choice([0, 1, 1, 2, 4]) + rng.choice([0, 0, 1])
            ops.append(["pull", treq])
    return {"chain": chain, "init": init, "ops": ops}


CORPUS = [
    {"chain": [["fixed", 5], ["fixed", 6]], "init": 0, "ops": [["push", 0], ["push", 10], ["push", 20], ["pull", 3], ["pull", 12], ["pull", 20], ["pull", 31]]},
    {"chain": [["topull", 2, 1]], "init": 0, "ops": [["push", 0], ["push", 5], ["pull", 4], ["push", 9], ["pull", 5], ["pull", 8], ["pull", 9], ["pull", 14]]},
    {"chain": [["topush"]], "init": 0, "ops": [["push", 0], ["pull", 3], ["push", 4], ["pull", 3], ["pull", 9], ["push", 12], ["pull", 10]]},
    {"chain": [["pass"], ["topull", 1, 0], ["pass"], ["fixed", 2]], "init": 3, "ops": [["push", 3], ["pull", 3], ["push", 8], ["pull", 7], ["pull", 8], ["push", 13], ["pull", 20]]},
]


SCHED_CORPUS = [
    # ring with the delay split over two adapters on one link (finding F1): the driver must assume the SUM
    {"sched": {"comps": [{"kind": "T", "start": 0, "steps": [sc.DAY], "initpull": False, "nout": 1,
                          "inputs": [{"src": [1, 0], "chain": [["fixed", sc.DAY // 2], ["pass"], ["fixed", sc.DAY // 2]]}]},
                         {"kind": "T", "start": 0, "steps": [sc.DAY], "initpull": False, "nout": 1,
                          "inputs": [{"src": [0, 0], "chain": []}]}],
               "end": 6 * sc.DAY}},
]


def _gen_sched(rng):
    """driver side: rings whose delays are split over several delay adapters per link"""
    r = rng.random()
    case = (sc.gen_ring(rng, sufficient=True) if r < 0.4 else sc.gen_ring_staggered(rng) if r < 0.55 else
            sc.gen_pull_ring(rng) if r < 0.7 else sc.gen_ring_mixed(rng) if r < 0.85 else sc.gen_lookahead(rng))
    return {"sched": case}


def generate(rng, tier):
    n = 600 if tier == "quick" else 12000
    m = 80 if tier == "quick" else 1500
    k = 40 if tier == "quick" else 600
    # calendar delays (DelayFixed accepts dateutil.relativedelta): run on the real driver, judged by the property monitor
    # only (the Coq model counts integer microseconds; the oracle for "t - delay" is dateutil itself)
    cal = [{"sched": sc.gen_calendar_link(rng)} for _ in range(k)]
    trees = [_gen_tree(rng) for _ in range(120 if tier == "quick" else 2500)]
    return list(CORPUS) + SCHED_CORPUS + [_gen(rng) for _ in range(n)] + [_gen_sched(rng) for _ in range(m)] + cal + trees


def _gen_tree(rng):
    """one output, a shared trunk of adapters without per-request state (at least one DelayToPush or DelayFixed) that
    branches to 2-3 consumers behind their own sub-chains; consumers pull at their own pace; a consumer may be
    push-based (CallbackInput) and pull the announced time while it is being notified"""
    unit = rng.choice(UNITS)
    trunk = []
    for _ in range(rng.choice([1, 1, 2])):
        r = rng.random()
        trunk.append(["topush"] if r < 0.6 else ["fixed", unit * rng.choice([1, 2, 3])] if r < 0.85 else ["pass"])
    if rng.random() < 0.3:
        trunk.insert(0, ["pass"])
    nc = rng.choice([2, 2, 3])
    subs, cb = [], []
    for _ in range(nc):
        ch = []
        for _ in range(rng.choice([0, 0, 1, 1, 2])):
            r = rng.random()
            ch.append(["pass"] if r < 0.35 else ["fixed", unit * rng.choice([1, 2])] if r < 0.65 else
                      ["topull", rng.choice([1, 2]), unit * rng.choice([0, 1])] if r < 0.9 else ["topush"])
        subs.append(ch)
        cb.append(rng.random() < 0.25)
    init = unit * rng.choice([0, 0, 2])
    ops = [["push", init]]
    tpub = init
    treq = [init] * nc
    pace = [rng.choice([1, 1, 2, 4]) for _ in range(nc)]
    for _ in range(rng.randint(8, 40)):
        if rng.random() < 0.4:
            tpub += unit * rng.choice([1, 2, 3, 5]) + rng.choice([0, 0, 1])
            ops.append(["push", tpub])
        else:
            i = rng.randrange(nc)
            if cb[i]:
                continue
            treq[i] += unit * pace[i] * rng.choice([0, 1, 1, 2]) + rng.choice([0, 0, 1])
            ops.append(["pull", i, treq[i]])
    return {"tree": {"trunk": trunk, "subs": subs, "cb": cb}, "init": init, "ops": ops}


def _run_tree(case):
    t_init = T(case["init"])
    tr = case["tree"]
    out = fm.Output(name="Out")
    node = out
    ads = []
    for a in reversed(tr["trunk"]):
        ad = schedlib.mk_adapter(a)
        ads.append(ad)
        node = node >> ad
    seen = []
    eff, res = [], []      # the effective script (with the pulls made inside notifications) and its results

    def do_pull(i, inp, time):
        seen.clear()
        try:
            d = inp.pull_data(time)
            r = ["ok", int(round(fin.scalar_of(d)))]
        except Exception as e:  # noqa
            r = [err_class(e)]
        eff.append(["pull", i, us_of(time)])
        res.append([seen[0] if seen else None, r, len(seen)])

    inputs = []
    started = [False]
    for i, sub in enumerate(tr["subs"]):
        if tr["cb"][i]:
            inp = fm.CallbackInput(callback=(lambda caller, time, i=i: started[0] and do_pull(i, caller, time)), name=f"In{i}")
        else:
            inp = fm.Input(name=f"In{i}")
        n2 = node
        for a in reversed(sub):
            ad = schedlib.mk_adapter(a)
            ads.append(ad)
            n2 = n2 >> ad
        n2 >> inp
        inputs.append(inp)
    for inp in inputs:
        inp.ping()
    out.push_info(fm.Info(time=t_init, grid=fm.NoGrid()))
    for inp in inputs:
        inp.exchange_info(fm.Info(time=t_init, grid=fm.NoGrid()))
    real = out.get_data

    def get_data(time, target):
        seen.append(us_of(time))
        return real(time, target)

    out.get_data = get_data
    started[0] = True
    npush = 0
    for op in case["ops"]:
        if op[0] == "push":
            eff.append(["push", op[1]])
            res.append(None)
            out.push_data(float(npush), T(op[1]))   # push-based consumers pull inside this call
            npush += 1
        else:
            do_pull(op[1], inputs[op[1]], T(op[2]))
    return {"eff": eff, "res": res,
            "inits": [us_of(a.initial_time) if hasattr(a, "initial_time") else None for a in ads]}


def _projections(case, obs):
    """the per-consumer links of a tree case: (link case, link observation)"""
    tr = case["tree"]
    out = []
    for i, sub in enumerate(tr["subs"]):
        ops, res = [], []
        for op, r in zip(obs["eff"], obs["res"]):
            if op[0] == "push":
                ops.append(op)
                res.append(None)
            elif op[1] == i:
                ops.append(["pull", op[2]])
                res.append(r)
        out.append(({"chain": sub + tr["trunk"], "init": case["init"], "ops": ops}, {"res": res, "inits": []}))
    return out


def model_applies(case):
    return not ("sched" in case and sc.has_calendar(case["sched"]))


def run_impl(case):
    if "sched" in case:
        return {"sched": schedlib.run_case(case["sched"])}
    if "tree" in case:
        return _run_tree(case)
    t_init = T(case["init"])
    out = fm.Output(name="Out")
    inp = fm.Input(name="In")
    ads = [schedlib.mk_adapter(a) for a in case["chain"]]
    node = out
    for ad in reversed(ads):
        node = node >> ad
    node >> inp
    inp.ping()
    out.push_info(fm.Info(time=t_init, grid=fm.NoGrid()))
    inp.exchange_info(fm.Info(time=t_init, grid=fm.NoGrid()))
    seen = []
    real = out.get_data

    def get_data(time, target):
        seen.append(us_of(time))
        return real(time, target)

    out.get_data = get_data
    res = []
    npush = 0
    for op in case["ops"]:
        if op[0] == "push":
            out.push_data(float(npush), T(op[1]))
            npush += 1
            res.append(None)
        else:
            seen.clear()
            try:
                d = inp.pull_data(T(op[1]))
                r = ["ok", int(round(fin.scalar_of(d)))]
            except Exception as e:  # noqa
                r = [err_class(e)]
            res.append([seen[0] if seen else None, r, len(seen)])
    return {"res": res, "inits": [us_of(a.initial_time) if hasattr(a, "initial_time") else None for a in ads]}


def coq_case(case, obs):
    if "sched" in case:
        return C("CSched", sc.coq_case(case["sched"], obs["sched"]))
    if "tree" in case:
        return C("CTree", L(_coq_case_link(c, o) for c, o in _projections(case, obs)))
    return C("CLink", _coq_case_link(case, obs))


def coq_obs(case, obs):
    if "sched" in case:
        return C("OSched", sc.coq_obs(case["sched"], obs["sched"]))
    if "tree" in case:
        return C("OTree", L(_coq_obs_link(c, o) for c, o in _projections(case, obs)))
    return C("OLink", _coq_obs_link(case, obs))


def _coq_case_link(case, obs):
    ops = [C("LPush", Z(o[1])) if o[0] == "push" else C("LPull", Z(o[1])) for o in case["ops"]]
    return P(L(sc.coq_adapter(a) for a in case["chain"]), Z(case["init"]), L(ops))


def _coq_obs_link(case, obs):
    out = []
    for r in obs["res"]:
        if r is None:
            out.append(NONE)
            continue
        t, rr, n = r
        if rr[0] == "ok":
            x = C("Ok", N(rr[1]))
        elif rr[0] == "TimeError":
            x = "ErrTime"
        elif rr[0] == "NoDataError":
            x = "ErrNoData"
        else:
            x = C("Ok", N(4999))
        out.append(Some(P(Z(t if t is not None else -1), x)))
    return L(out)


def _expected(case):
    """documented semantics, composed in pull order: list of (time reaching the source) per pull"""
    init = case["init"]
    hist = {}  # position -> request history of DelayToPull
    newest = None
    pubs = []
    exp = []
    for op in case["ops"]:
        if op[0] == "push":
            newest = op[1]
            pubs.append(op[1])
            exp.append(None)
            continue
        t = op[1]
        recs = []
        for pos, a in enumerate(case["chain"]):
            if a[0] == "fixed":
                t = max(t - a[1], init)
            elif a[0] == "topush":
                t = init if newest is None else min(t, newest)
            elif a[0] == "topull":
                h = hist.get(pos, [])
                recs.append((pos, t))
                n = a[1]
                prev = h[len(h) - n] if len(h) >= n else init  # time of the n-th previous request
                t = max(prev - a[2], init)
        ok = bool(pubs) and pubs[0] <= t <= pubs[-1]
        if ok:
            for pos, tt in recs:
                hist.setdefault(pos, []).append(tt)
        exp.append((t, ok))
    return exp


def monitor(case, obs):
    if "sched" in case and sc.has_calendar(case["sched"]):
        return sc.monitor_calendar(case["sched"], obs["sched"])
    if "sched" in case:
        # "the shifted time is both what the driver assumes when scheduling and what is actually requested":
        # the C02 monitor (lagging closure from the documented shifts + observed request times) and C04's verdict
        from . import c02, c04
        return c02.monitor(case["sched"], obs["sched"]) or c04.monitor(case["sched"], obs["sched"])
    if "tree" in case:
        if any(i is not None and i != case["init"] for i in obs["inits"]):
            return f"adapter start times {obs['inits']} differ from the link's info time {case['init']}"
        for i, (c, o) in enumerate(_projections(case, obs)):
            if case["tree"]["cb"][i]:
                got = [x[1] for x in c["ops"] if x[0] == "pull"]
                want = [x[1] for x in case["ops"] if x[0] == "push"]
                if got != want:
                    return f"push-based consumer {i} was notified of / pulled {got}, published were {want}"
            m = _monitor_link(c, o)
            if m:
                return f"consumer {i} (chain {c['chain']}): {m}"
        return None
    return _monitor_link(case, obs)


def _monitor_link(case, obs):
    if any(i is not None and i != case["init"] for i in obs["inits"]):
        return f"adapter start times {obs['inits']} differ from the link's info time {case['init']}"
    exp = _expected(case)
    pubs = [o[1] for o in case["ops"] if o[0] == "push"]
    seen_pubs = []
    for k, (op, r, e) in enumerate(zip(case["ops"], obs["res"], exp)):
        if op[0] == "push":
            seen_pubs.append(op[1])
            continue
        t_src, rr, n = r
        if n != 1:
            return f"op {k}: pull for {op[1]} reached the source {n} times"
        if t_src != e[0]:
            return f"op {k}: pull for {op[1]} asked the source for {t_src}, the adapters' documented shifts give {e[0]}"
        if e[1]:
            if rr[0] != "ok":
                return f"op {k}: pull for {op[1]} (source time {t_src}, published {seen_pubs[0]}..{seen_pubs[-1]}) failed with {rr}"
            dmin = min(abs(p - t_src) for p in seen_pubs)
            if abs(seen_pubs[rr[1]] - t_src) != dmin:
                return f"op {k}: delivered publication {rr[1]} is not the source's data for {t_src}"
        elif rr[0] == "ok":
            return f"op {k}: pull for {op[1]} (source time {t_src}) outside the published range was served"
    return None


def nontrivial(case, obs):
    if "sched" in case and sc.has_calendar(case["sched"]):
        return True
    if "tree" in case:
        # two consumers whose requests at the source interleave (one is served for a later time than the other asks next)
        last = {}
        for op, r in zip(obs["eff"], obs["res"]):
            if op[0] == "pull" and r[0] is not None:
                if any(v > r[0] for k, v in last.items() if k != op[1]):
                    return True
                last[op[1]] = r[0]
        return False
    if "sched" in case:
        return any(sum(1 for a in i["chain"] if a[0] == "fixed") >= 2 for c in case["sched"]["comps"] for i in c["inputs"])
    exp = _expected(case)
    unclamped = any(e is not None and e[0] > case["init"] for e in exp)
    delays = [a for a in case["chain"] if a[0] != "pass"]
    return unclamped and (len(delays) >= 2 or any(a[0] == "topull" and a[1] >= 2 for a in delays))


def distribution(cases, obss):
    from collections import Counter
    nsched = sum(1 for c in cases if "sched" in c)
    ntree = sum(1 for c in cases if "tree" in c)
    pairs = [(c, o) for c, o in zip(cases, obss) if "sched" not in c and "tree" not in c]
    cases = [c for c, _ in pairs]
    obss = [o for _, o in pairs]
    return {"scheduler_cases": nsched, "tree_cases": ntree, "adapter_kinds": dict(Counter(a[0] for c in cases for a in c["chain"])),
            "chain_lengths": dict(Counter(len(c["chain"]) for c in cases)),
            "pull_results": dict(Counter(r[1][0] for o in obss if "res" in o for r in o["res"] if r is not None))}


def shrink_candidates(case):
    if "sched" in case:
        for c in sc.shrink_candidates(case["sched"]):
            yield {"sched": c}
        return
    ops = case["ops"]
    if "tree" in case:
        for i in range(len(ops) - 1, 0, -1):
            yield dict(case, ops=ops[:i] + ops[i + 1:])
        return
    for i in range(len(ops) - 1, 0, -1):
        yield {"chain": case["chain"], "init": case["init"], "ops": ops[:i] + ops[i + 1:]}
    for i in range(len(case["chain"])):
        yield {"chain": case["chain"][:i] + case["chain"][i + 1:], "init": case["init"], "ops": ops}
