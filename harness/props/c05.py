"""C05 — the coupling outcome is independent of listing and linking order.

For each generated composition (producers declare units and grids, no DelayToPush) the REAL finam is run under several
permutations of the component list and of the link creation order.  Every variant must agree with the Coq model run on
that variant (correspondence), and the monitor compares the variants with each other: same outcome class, same
exchanged metadata (adapter start times), same final component times, same full (time, value) series received by
every consumer input."""
import itertools

from ..coqgen import L, N, P, Z
from .. import schedlib
from . import sched_common as sc
from . import c01

ID = "C05"
COQ_IMPORTS = "From FV Require Import Base Sched."
COQ_CHECK = "c05_check2"
COQ_MODEL_OBS = None
TRUSTED = sc.TRUSTED
RULE = (
    "compositions as for C01 without DelayToPush and with single-reader pull-based components; every composition is "
    "run under up to 6 (quick) / 24 (thorough) listing orders (all orders for <= 3 components) each with a random link "
    "creation order; non-trivial = at least 2 variants executed and at least one tie in component times during the "
    "run (so that the listing order matters for the schedule); distinct by canonical case hash"
)
ASSUMPTIONS = c01.ASSUMPTIONS + ["domain of the property: producers declare units and grid, no push-time-dependent adapter"]
CASE_TIMEOUT = 120
SHARD = 60


def _strip_topush(case):
    for c in case["comps"]:
        for i in c["inputs"]:
            i["chain"] = [a for a in i["chain"] if a[0] != "topush"]
    return case


def _variants(rng, base, tier):
    n = len(base["comps"])
    perms = list(itertools.permutations(range(n))) if n <= 3 else None
    maxv = 6 if tier == "quick" else 24
    if perms is None or len(perms) > maxv:
        chosen = [tuple(range(n))]
        while len(chosen) < maxv:
            p = list(range(n))
            rng.shuffle(p)
            if tuple(p) not in chosen:
                chosen.append(tuple(p))
            if len(chosen) >= (1 if n < 2 else (2 if n == 2 else maxv)):
                break
        perms = chosen
    nlinks = sum(len(c["inputs"]) for c in base["comps"])
    out = []
    for p in perms:
        lo = list(range(nlinks))
        rng.shuffle(lo)
        out.append({"order": list(p), "link_order": lo})
    return out


F16_BASE = {"comps": [{"kind": "T", "start": 0, "steps": [sc.DAY], "initpull": False, "nout": 1, "inputs": []},
                      {"kind": "P", "nout": 1, "inputs": [{"src": [0, 0], "chain": []}]},
                      {"kind": "T", "start": 0, "steps": [sc.DAY], "initpull": False, "nout": 0,
                       "inputs": [{"src": [1, 0], "chain": []}]},
                      {"kind": "T", "start": 0, "steps": [2 * sc.DAY], "initpull": False, "nout": 0,
                       "inputs": [{"src": [1, 0], "chain": []}]}],
            "end": 8 * sc.DAY}


def generate(rng, tier):
    n = 45 if tier == "quick" else 700
    cases = []
    D = sc.DAY
    corpus = [c01.CORPUS[0], c01.CORPUS[1], c01.CORPUS[2], c01.CORPUS[3], c01.CORPUS[4],
              # one output fanning out behind a shared pass-through adapter to consumers with different steps
              {"comps": [{"kind": "T", "start": 0, "steps": [D], "initpull": False, "nout": 1, "inputs": [], "shared_out": [0]},
                         {"kind": "T", "start": 0, "steps": [D], "initpull": True, "nout": 0, "inputs": [{"src": [0, 0], "chain": []}]},
                         {"kind": "T", "start": 0, "steps": [2 * D], "initpull": False, "nout": 0,
                          "inputs": [{"src": [0, 0], "chain": [], "meta": {"long_name": "level"}}]}],
               "end": 6 * D}]
    for i in range(n + len(corpus)):
        if i < len(corpus):
            base = corpus[i]
        elif i % 9 == 4:
            base = sc.gen_shared_delay(rng)
        elif i % 9 == 7:
            base = sc.gen_connect_chain(rng)       # same-named components with connect-phase dependencies
        elif i % 9 == 5:
            base = sc.gen_lazy_infos(rng)          # infos known only in the connect phase on both ends of several links
        elif i % 9 == 1:
            base = sc.gen_shared_and_own(rng)      # a branching shared adapter next to a non-branching one on one output
        elif i % 3 == 2:
            base = _strip_topush(sc.gen_ring(rng, sufficient=True))
        else:
            base = _strip_topush(sc.gen_dag(rng))
        # extra metadata attributes declared by single consumers (the producers do not know them)
        readers = {}
        for k, c in enumerate(base["comps"]):
            if c["kind"] != "T":
                continue
            for ii, inp in enumerate(c["inputs"]):
                readers.setdefault(tuple(inp["src"]), []).append((k, ii))
        for src, rl in readers.items():
            if len(rl) >= 2 and rng.random() < 0.6:
                k, ii = rng.choice(rl)
                base["comps"][k]["inputs"][ii] = dict(base["comps"][k]["inputs"][ii], meta={"long_name": f"attr{k}"})
        t0 = min(c["start"] for c in base["comps"] if c["kind"] == "T")
        if base["end"] <= t0:
            # run(end) with end <= start performs exactly one update (do-while) of whichever component is listed
            # first among the least advanced ones: a degenerate call outside the property's reading (see DESIGN C05)
            base = dict(base, end=t0 + 1)
        cases.append({"base": base, "variants": _variants(rng, base, tier)})
    # F16 (known finding): a pull-based component read by a daily and a two-daily consumer - whether the producer's
    # history still holds what the slower reader asks for depends on the order in which equally advanced components
    # are considered, i.e. on the listing order
    cases.append({"base": F16_BASE, "variants": [{"order": [0, 1, 2, 3], "link_order": [0, 1, 2]},
                                                 {"order": [0, 1, 3, 2], "link_order": [0, 1, 2]},
                                                 {"order": [3, 2, 1, 0], "link_order": [2, 1, 0]}]})
    # finam's own producers with internal state (noise generators, callback generators): monitor only
    for _ in range(6 if tier == "quick" else 60):
        cases.append(_gen_own(rng))
    return cases


def _variant_case(case, v):
    base = [dict(c, uid=k) for k, c in enumerate(case["base"]["comps"])]
    comps = sc.permute(base, v["order"])
    return {"comps": comps, "end": case["base"]["end"], "link_order": v["link_order"],
            "samename": bool(case["base"].get("samename"))}


def model_applies(case):
    return "own" not in case


def _gen_own(rng):
    import itertools
    n_noise = rng.choice([2, 2, 3])
    seeds = rng.sample([1, 7, 42, 1234, 99], n_noise)
    orders = list(itertools.permutations(range(2 * n_noise)))
    rng.shuffle(orders)
    return {"own": {"seeds": seeds, "octaves": rng.choice([1, 3]), "steps_h": [rng.choice([6, 12, 24]) for _ in seeds],
                    "days": rng.choice([3, 5]), "orders": [list(o) for o in orders[:8]],
                    "grid": rng.choice([[4, 3], [5], [3, 3]])}}


def _run_own(b):
    """N_i (SimplexNoise, own seed, grid and units declared) -> C_i (DebugConsumer): several listing orders"""
    from datetime import datetime, timedelta
    import numpy as np
    import finam as fm
    from ..fin import err_class
    start = datetime(2000, 1, 1)
    out = []
    for order in b["orders"]:
        comps = []
        noises, conss = [], []
        for k, seed in enumerate(b["seeds"]):
            noises.append(fm.components.SimplexNoise(
                info=fm.Info(time=None, grid=fm.UniformGrid(tuple(b["grid"])), units="m"), frequency=0.3,
                time_frequency=1.0 / (24 * 3600), octaves=b["octaves"], persistence=0.5, low=0.0, high=1.0, seed=seed))
        series = [[] for _ in b["seeds"]]
        conss = []
        for k, seed in enumerate(b["seeds"]):
            def rec(name, data, t, k=k):
                series[k].append([t.isoformat(), np.asarray(fm.data.get_magnitude(data)).round(12).ravel().tolist()])
            conss.append(fm.components.DebugConsumer(
                {"In": fm.Info(time=None, grid=None, units=None)}, start=start, step=timedelta(hours=b["steps_h"][k]),
                callbacks={"In": rec}))
        allc = noises + conss
        listed = [allc[i] for i in order]
        outcome = "ok"
        try:
            comp = fm.Composition(listed)
            for n_, c_ in zip(noises, conss):
                n_.outputs["Noise"] >> c_.inputs["In"]
            comp.connect(start)
            comp.run(end_time=start + timedelta(days=b["days"]))
        except Exception as e:  # noqa
            outcome = err_class(e) + ": " + str(e)[:200]
        out.append({"order": order, "outcome": outcome, "series": series})
    return {"own": out}


def run_impl(case):
    if "own" in case:
        return _run_own(case["own"])
    return {"variants": [schedlib.run_case(_variant_case(case, v)) for v in case["variants"]]}


def coq_case(case, obs):
    variants = L(sc.coq_case(_variant_case(case, v), o) for v, o in zip(case["variants"], obs["variants"]))
    fuel = max([sc.fuel_for(None, o) for o in obs["variants"]] or [10])
    base = P(L(sc.coq_comp(c, case["base"]["comps"]) for c in case["base"]["comps"]), Z(case["base"]["end"]), N(fuel))
    prios = L(L(N(k) for k in v["order"]) for v in case["variants"])
    return P(base, prios, variants)


def coq_obs(case, obs):
    return L(sc.coq_obs(_variant_case(case, v), o) for v, o in zip(case["variants"], obs["variants"]))


def _canon(case, v, o):
    """observation of one variant mapped back to the base numbering"""
    order = v["order"]  # order[k] = base index of the component listed at position k
    n = len(order)
    times = [None] * n
    recv = [None] * n
    for k in range(n):
        times[order[k]] = o["times"][k]
        recv[order[k]] = o["received"][k]
    inits = sorted([order[x[0]], x[1], x[2], x[3]] for x in o["init_times"])
    infos = [None] * n
    for k in range(n):
        infos[order[k]] = o["infos"][k]
    return {"outcome": (o["phase"], o["outcome"]), "times": times, "received": recv, "inits": inits, "metadata": infos}


def monitor(case, obs):
    if "own" in case:
        ref = obs["own"][0]
        if not ref["outcome"].startswith("ok"):
            return f"listing {ref['order']}: {ref['outcome']}"
        for o in obs["own"][1:]:
            if o["outcome"] != ref["outcome"]:
                return f"outcome differs between listings {ref['order']} ({ref['outcome']}) and {o['order']} ({o['outcome']})"
            for k, (a, b) in enumerate(zip(ref["series"], o["series"])):
                if a != b:
                    j = next(i for i, (x, y) in enumerate(zip(a, b)) if x != y) if len(a) == len(b) else -1
                    return (f"the series received by consumer {k} differs between listings {ref['order']} and {o['order']}"
                            + (f": at {a[j][0]} {a[j][1][:3]} vs {b[j][1][:3]}" if j >= 0 else " (lengths)"))
        return None
    ref = None
    for v, o in zip(case["variants"], obs["variants"]):
        if "harness_error" in o:
            return f"variant {v['order']}: harness error {o['harness_error']}"
        f = c01.monitor(_variant_case(case, v), o)
        if f:
            return f"variant {v['order']}: {f}"
        c = _canon(case, v, o)
        if ref is None:
            ref = (v, c)
            continue
        for key in ("outcome", "inits", "metadata", "times", "received"):
            if c[key] != ref[1][key]:
                return (f"{key} differs between listing order {ref[0]['order']} / link order {ref[0]['link_order']} and "
                        f"listing order {v['order']} / link order {v['link_order']}: {str(ref[1][key])[:300]} vs {str(c[key])[:300]}")
    return None


def nontrivial(case, obs):
    if "own" in case:
        return len(obs.get("own", [])) >= 2
    if len(case["variants"]) < 2:
        return False
    o = obs["variants"][0]
    vc = _variant_case(case, case["variants"][0])
    for _, c, _, before in sc.replay_times(vc, o):
        if sum(1 for t in before.values() if t == min(before.values())) > 1:
            return True
    return False


def distribution(cases, obss):
    from collections import Counter
    n_own = sum(1 for c in cases if "own" in c)
    pairs = [(c, o) for c, o in zip(cases, obss) if "own" not in c]
    cases, obss = [c for c, _ in pairs], [o for _, o in pairs]
    return {"variants_per_case": dict(Counter(len(c["variants"]) for c in cases)),
            "n_components": dict(Counter(len(c["base"]["comps"]) for c in cases)),
            "outcomes": dict(Counter(o["variants"][0]["outcome"] for o in obss if "variants" in o))}


def shrink_candidates(case):
    if "own" in case:
        b = case["own"]
        if len(b["orders"]) > 2:
            for i in range(1, len(b["orders"])):
                yield {"own": dict(b, orders=[b["orders"][0], b["orders"][i]])}
        return
    for b in sc.shrink_candidates(case["base"]):
        n = len(b["comps"])
        nl = sum(len(c["inputs"]) for c in b["comps"])
        vs = []
        for v in case["variants"][:4]:
            order = [x for x in v["order"] if x < n]
            if sorted(order) != list(range(n)):
                order = list(range(n))
            vs.append({"order": order, "link_order": list(range(nl))})
        vs.append({"order": list(reversed(range(n))), "link_order": list(reversed(range(nl)))})
        yield {"base": b, "variants": vs}


def _f16(case, obs, failure):
    if "base" not in case or not isinstance(obs, dict):
        return False
    return any(isinstance(o, dict) and "events" in o
               and sc.nonmonotone_pull_component_requests(_variant_case(case, v), o)
               for v, o in zip(case["variants"], obs.get("variants", [])))


classifiers = {"shared_pull_component_nonmonotone_requests": _f16}
