"""C11 — time interpolation adapters equal their mathematical definition.

Correspondence: a real link  Output >> {NextTime | PreviousTime | LinearTime | StepTime(s)} >> Input
is driven through the public API by a scripted interleaving of publications (Output.push_data)
and consumer requests (Input.pull_data).  The same script is evaluated by the Coq model
TimeInterp.run (one run per payload component) and every pull result (value(s) or error class)
is compared inside Coq: exactly for the selection adapters and for dyadic LinearTime cases,
with relative tolerance 2^-40 otherwise.

Monitor: the mathematical definition (first publication at/after t, last at/before t, linear
interpolant, step interpolant) recomputed here with Fractions from the publication history.
"""
import gc
import os
import tempfile
from bisect import bisect_left, bisect_right
from collections import Counter
from fractions import Fraction

import numpy as np

from ..coqgen import B, C, L, N, NONE, P, Q, Some
from ..coqgen import Z as ZZ
from ..fin import fm, T, err_class, magnitude, us_of

ID = "C11"
TITLE = "Time interpolation adapters equal their mathematical definition"
COQ_IMPORTS = "From FV Require Import Base TimeInterp."
COQ_CHECK = "c11_check"
COQ_MODEL_OBS = "c11_model"
RULE = (
    "random scripts of publications (strictly increasing times, irregular gaps from 1us to ~10 days) interleaved "
    "with consumer requests on / between / across several publications and exactly at the step position, for "
    "NextTime, PreviousTime, LinearTime and StepTime(step in {0,1/4,1/2,1,1/8,3/4,1/3,2/3,1/10,3/10}), scalar and "
    "small gridded payloads, plus a malformed stream (requests before the first / after the last publication, "
    "pulls before any publication); every 9th case has a push-driven consumer (CallbackInput pulling the announced time "
    "inside each notification; those pulls are part of the request sequence); 40% of the gridded payloads are masked arrays whose missing cells change from "
    "publication to publication (FLEX info; most of them under a memory limit); a third of the value series contain plateaus (identical publications in a row) or drift (consecutive publications "
    "that agree within 1e-5 relative / 1e-8 absolute but differ) with the source running ahead of the consumer; data shapes "
    "incl. grids with a degenerate axis (2x2x1, 1x1, 1, 1x2x1); a quarter of the gridded consumers describe the grid "
    "with axes running the other way (cells matched by coordinates); payload units m, degC, degF (offset units), K, dimensionless, mm/d; a quarter of the cases give the adapter a memory limit (0 / 1.5 payloads / huge) "
    "with one spill directory per worker process and are preceded by another coupling (other payloads) in the "
    "same process and directory; non-trivial = at least 3 publications, at least two "
    "successful pulls in at least two different publication intervals, one of them strictly between publications; "
    "distinct by canonical case hash"
)
TRUSTED = [
    "consumer grids given in another compatible layout (axes running the other way): delivered cells are matched to the "
    "published cells by their coordinates (grid.data_points of both grids), finam's layout transform itself is C15's subject",
    "IEEE rounding of LinearTime's old + dt*(new-old) is outside the model: compared with relative tolerance 2^-40 "
    "(scale 1+max|v|); cases with power-of-two gaps and dyadic values are compared exactly",
    "StepTime's float comparison dt > step is modelled as the exact rational comparison against the nominal step "
    "position p/q (float(p/q) is given to finam); they coincide for q*gap < 2^52 us (generator keeps gaps < 2^40)",
    "gridded payloads: numpy's element-wise arithmetic/selection is modelled as one scalar run per component",
]
ASSUMPTIONS = [
    "domain of the theorems: strictly increasing publication times; in-range requests are non-decreasing; "
    "out-of-range requests may occur anywhere (they raise and leave the adapter unchanged)",
]

DAY = 86400 * 10**6
GAPS = [1, 2, 3, 5, 7, 10, 1000, 999999, 10**6, 3600 * 10**6, DAY, DAY + 1, 10 * DAY - 3]
POW2_GAPS = [1, 2, 4, 8, 16, 1024, 2**20]
STEPS = [[0, 1], [1, 4], [1, 2], [1, 1], [1, 8], [3, 4], [1, 3], [2, 3], [1, 10], [3, 10]]
KINDS = ["next", "prev", "linear", "step"]
UNITS = ["m", "m", "degC", "degC", "degF", "K", "", "mm/d"]
# data shapes; incl. grids with a degenerate axis: one layer of a 3-D grid, a single cell, a single 1-D cell
SHAPES = [[], [], [], [2], [2, 2], [3, 1], [2, 2, 1], [1, 1], [1], [1, 2, 1]]


def _val(rng, dyadic):
    if dyadic:
        return rng.randint(-800, 800) / 8.0
    m = rng.random()
    if m < 0.4:
        return rng.randint(-50, 50) / 10.0
    if m < 0.6:
        return float(rng.randint(-5, 5))
    if m < 0.8:
        return rng.uniform(-1e3, 1e3)
    return rng.choice([1e6 + rng.random(), -1e-3 * rng.random(), 0.0, 1e-9])


def _gen_case(rng, malformed, kind=None):
    kind = kind or rng.choice(KINDS)
    step = rng.choice(STEPS if rng.random() < 0.7 else STEPS[:4]) if kind == "step" else None
    shape = rng.choice(SHAPES)
    n = int(np.prod(shape)) if shape else 1
    exact = kind == "linear" and rng.random() < 0.35
    gaps = rng.sample(POW2_GAPS if exact else GAPS, rng.choice([1, 2, 3]))
    if not exact and rng.random() < 0.3:
        gaps.append(rng.randint(1, 2**39))
    nops = rng.randint(4, 22)
    t = rng.choice([0, 0, 5, DAY])
    pubs = []
    ops = []
    last_req = None

    def push():
        nonlocal t, drift
        if pubs:
            t += rng.choice(gaps)
        pubs.append(t)
        nonlocal level
        if series == "plateau" and level is not None and rng.random() < 0.7:
            vals = list(level)                       # the same payload again
        elif series == "drift" and level is not None and rng.random() < 0.85:
            # close to, but different from, the previous publication (slowly varying state, small SI fluxes)
            vals = [v + d * rng.choice([1, 1, 2, 3]) for v, d in zip(level, drift)]
        else:
            vals = [_val(rng, exact) for _ in range(n)]
            if series == "drift":
                if rng.random() < 0.5:
                    vals = [1024.0 + rng.randint(0, 50) + rng.random() for _ in range(n)]
                    drift = [rng.choice([1e-6, 1e-7, -1e-6, 3e-5]) for _ in range(n)]
                else:
                    vals = [1e-9 * rng.randint(1, 9) for _ in range(n)]
                    drift = [1e-9 * rng.choice([1, 1, -0.5, 0.25]) for _ in range(n)]
        level = vals
        op = ["push", t, vals]
        if masked:
            # missing cells, different from publication to publication (numpy masked array, Mask.FLEX info)
            op.append([0] * n if rng.random() < 0.25 else [int(rng.random() < 0.35) for _ in range(n)])
        ops.append(op)

    masked = bool(shape) and rng.random() < 0.4
    # value series: independent values | plateaus (identical publications in a row) | drift (consecutive
    # publications that agree to 1e-5 relative / 1e-8 absolute but are different values)
    series = rng.choice([None, None, None, "plateau", "drift", "drift"])
    if series == "drift":
        exact = False
    level, drift = None, None
    push_rate = 0.4 if series is None else 0.6      # plateau / drift: the source runs ahead of the consumer
    if not (malformed and rng.random() < 0.4):
        push()
    for _ in range(nops):
        if not pubs:
            if rng.random() < 0.5:
                ops.append(["pull", t + rng.choice([0, 1, -1])])
            else:
                push()
            continue
        if rng.random() < push_rate:
            push()
            continue
        lo = pubs[0] if last_req is None else last_req
        hi = pubs[-1]
        if malformed and rng.random() < 0.35:
            # out-of-range requests only: the answer to a DEcreasing in-range request depends on what
            # happens to be retained and is not specified by the property
            r = rng.choice([pubs[0] - 1, hi + 1, pubs[0] - rng.choice(gaps), hi + rng.choice(gaps)])
        else:
            cands = [p for p in pubs if lo <= p <= hi]
            mode = rng.random()
            # index of a publication interval that still can be requested
            ivs = [i for i in range(len(pubs) - 1) if pubs[i + 1] > lo]
            if mode < 0.25 and cands:
                r = rng.choice(cands)                                  # on a publication
            elif mode < 0.8 and ivs:
                i = rng.choice(ivs if rng.random() < 0.5 else ivs[:2])  # next intervals or any later one
                a, b = pubs[i], pubs[i + 1]
                sub = rng.random()
                if sub < 0.35 and step is not None:
                    # exactly at / one microsecond around the step position
                    x = a + (b - a) * step[0] // step[1]
                    r = x + rng.choice([0, 0, 1, -1])
                elif sub < 0.6:
                    r = a + (b - a) * rng.choice([1, 1, 2, 3]) // 4
                elif sub < 0.75:
                    r = rng.choice([a + 1, b - 1])
                else:
                    r = rng.randint(a, b)
                r = min(max(r, lo), hi)
            else:
                r = rng.randint(lo, hi)
        ops.append(["pull", r])
        if pubs[0] <= r <= pubs[-1]:
            last_req = r if last_req is None else max(r, last_req)
    mem = rng.choice([0, "mid", "huge"]) if rng.random() < (0.6 if masked else 0.25) else None
    # payload units incl. offset units (degC, degF): the interpolant is formed in the payload's own unit
    units = rng.choice(UNITS)
    # the consumer may describe the same grid in another (compatible) layout: axes running the other way
    flip = [rng.random() < 0.5 for _ in shape] if (shape and rng.random() < 0.25) else None
    return {"kind": kind, "step": step, "shape": shape, "exact": exact, "mem": mem, "units": units, "series": series,
            "flip": flip, "ops": ops}


def _daily(vals):
    return [["push", d * DAY, [float(v)]] for d, v in enumerate(vals)]


def _masked_witness(kind, step, mem):
    """gridded payload with missing cells that change between publications, spilled buffer (seeded C11_g)"""
    return {"kind": kind, "step": step, "shape": [2, 2], "exact": kind == "linear", "mem": mem, "units": "m",
            "ops": [["push", 0, [1.0, 2.0, 3.0, 4.0], [1, 0, 0, 0]], ["push", 8, [5.0, 6.0, 7.0, 8.0], [0, 1, 0, 0]],
                    ["pull", 0], ["pull", 2], ["pull", 6], ["push", 16, [-1.0, -2.0, -3.0, -4.0], [0, 0, 0, 0]],
                    ["pull", 8], ["pull", 12], ["push", 32, [0.5, 1.5, 2.5, 3.5], [0, 0, 1, 1]], ["pull", 16], ["pull", 20],
                    ["pull", 32]]}


def _drift_witness(kind, step, small):
    """publications that are close to (np.allclose), but different from, their predecessors while the source is
    several publications ahead of the consumer (seeded C11_l)"""
    vals = [(1e-9 * (1 + k)) if small else (1024.0 + 1e-6 * k) for k in range(7)]
    ops = [["push", k * DAY, [vals[k]]] for k in range(4)] + [["pull", 0], ["pull", DAY + DAY // 2], ["pull", 3 * DAY]]
    ops += [["push", k * DAY, [vals[k]]] for k in range(4, 7)] + [["pull", 4 * DAY], ["pull", 5 * DAY + 7], ["pull", 6 * DAY]]
    return {"kind": kind, "step": step, "shape": [], "exact": False, "mem": None, "units": "m", "series": "drift", "flip": None,
            "ops": ops}


def _shape_witness(kind, step, shape, flip=None):
    """grids with a degenerate axis: one layer of a 3-D grid, a single cell (seeded C11_m)"""
    n = int(np.prod(shape))
    ops = [["push", 0, [float(j + 1) for j in range(n)]], ["push", 8, [float(3 * j - 2) for j in range(n)]], ["pull", 0],
           ["pull", 2], ["push", 24, [float(j * j) - 0.5 for j in range(n)]], ["pull", 8], ["pull", 20], ["pull", 24]]
    return {"kind": kind, "step": step, "shape": shape, "exact": False, "mem": None, "units": "m", "series": None, "flip": flip,
            "ops": ops}


def _notified_witness(kind, step):
    """push-driven consumer directly behind the adapter: it pulls the announced time inside every notification and
    must get the definition's value for the publication time (seeded C11_q)"""
    return {"kind": kind, "step": step, "shape": [], "exact": False, "mem": None, "units": "m", "series": None, "flip": None,
            "notified": True,
            "ops": [["push", 0, [1.5]], ["pull", 0], ["push", 8, [-2.0]], ["push", 11, [4.25]], ["pull", 11], ["pull", 12],
                    ["push", 30, [0.5]]]}


CORPUS = [
    _notified_witness("next", None), _notified_witness("prev", None), _notified_witness("linear", None),
    _notified_witness("step", [1, 2]),
    _drift_witness("next", None, False), _drift_witness("linear", None, True), _drift_witness("prev", None, True),
    _drift_witness("step", [1, 2], False),
    _shape_witness("linear", None, [2, 2, 1]), _shape_witness("next", None, [1, 1]), _shape_witness("step", [1, 4], [1]),
    _shape_witness("prev", None, [1, 2, 1]), _shape_witness("linear", None, [3, 2], flip=[False, True]),
    _masked_witness("next", None, 0), _masked_witness("prev", None, "mid"), _masked_witness("linear", None, 0),
    _masked_witness("step", [1, 4], 0), _masked_witness("linear", None, None),
    # offset units: requests strictly inside a gap (seeded C11_e); expected = interpolant in the same unit
    {"kind": "linear", "step": None, "shape": [], "exact": True, "mem": None, "units": "degC",
     "ops": [["push", 0, [10.0]], ["push", 8, [20.0]], ["pull", 0], ["pull", 2], ["pull", 7], ["push", 24, [-4.0]],
             ["pull", 8], ["pull", 12], ["pull", 23], ["pull", 24]]},
    {"kind": "linear", "step": None, "shape": [2], "exact": False, "mem": 0, "units": "degF",
     "ops": [["push", 0, [50.0, 32.0]], ["push", 3, [68.5, -40.0]], ["pull", 1], ["pull", 2], ["push", 10, [14.0, 212.0]],
             ["pull", 3], ["pull", 7], ["pull", 10]]},
    {"kind": "step", "step": [1, 4], "shape": [], "exact": False, "mem": None, "units": "degC",
     "ops": [["push", 0, [10.0]], ["push", 8, [20.0]], ["pull", 1], ["pull", 2], ["pull", 3], ["pull", 8]]},
    {"kind": "next", "step": None, "shape": [], "exact": False, "mem": None, "units": "degF",
     "ops": [["push", 0, [10.0]], ["push", 8, [20.0]], ["pull", 0], ["pull", 5], ["pull", 8]]},
    {"kind": "prev", "step": None, "shape": [], "exact": False, "mem": None, "units": "degC",
     "ops": [["push", 0, [10.0]], ["push", 8, [20.0]], ["pull", 0], ["pull", 5], ["pull", 8]]},
    # buffer spilled to a directory shared with an earlier coupling of the same process (seeded C11_d)
    {"kind": "linear", "step": None, "shape": [2], "exact": True, "mem": 0,
     "ops": [["push", 0, [1.0, -1.0]], ["push", 8, [3.0, 0.5]], ["pull", 0], ["pull", 2], ["pull", 6], ["push", 16, [4.0, 8.5]],
             ["pull", 8], ["pull", 12], ["pull", 16]]},
    {"kind": "prev", "step": None, "shape": [], "exact": False, "mem": "mid",
     "ops": _daily([0.5, -3.25, 7.0, 7.0]) + [["pull", 0], ["pull", DAY // 3], ["pull", DAY], ["pull", DAY + 5], ["pull", 3 * DAY]]},
    {"kind": "step", "step": [1, 2], "shape": [2, 2], "exact": False, "mem": 0,
     "ops": [["push", 0, [1.0, 2.0, 3.0, 4.0]], ["push", 10, [5.0, 6.0, 7.0, 8.0]], ["pull", 4], ["pull", 5], ["pull", 6],
             ["push", 30, [-1.0, -2.0, -3.0, -4.0]], ["pull", 10], ["pull", 21], ["pull", 30]]},
    {"kind": "next", "step": None, "shape": [], "exact": False, "mem": 0,
     "ops": _daily([0.5, -3.25, 7.0]) + [["pull", 1], ["pull", DAY], ["pull", DAY + 1], ["pull", 2 * DAY]]},
    # tests/adapters/test_time.py style: daily series, value = day number
    {"kind": "linear", "step": None, "shape": [], "exact": False,
     "ops": _daily([0, 1]) + [["pull", 0], ["pull", DAY // 2]] + [["push", 2 * DAY, [2.0]]]
            + [["pull", DAY], ["pull", DAY + DAY // 4], ["pull", 2 * DAY]]},
    {"kind": "next", "step": None, "shape": [], "exact": False,
     "ops": _daily([0, 1, 2, 3]) + [["pull", 0], ["pull", 1], ["pull", DAY], ["pull", DAY + 1], ["pull", 3 * DAY], ["pull", 3 * DAY + 1]]},
    {"kind": "prev", "step": None, "shape": [], "exact": False,
     "ops": _daily([0, 1, 2, 3]) + [["pull", 0], ["pull", 1], ["pull", DAY - 1], ["pull", DAY], ["pull", 3 * DAY - 1], ["pull", 3 * DAY]]},
    # step position hit exactly: dt == step must give the OLD value, dt just above the NEW one
    {"kind": "step", "step": [1, 4], "shape": [], "exact": False,
     "ops": [["push", 0, [1.0]], ["push", 8, [2.0]], ["pull", 1], ["pull", 2], ["pull", 3], ["push", 108, [5.0]],
             ["pull", 8], ["pull", 33], ["pull", 34], ["pull", 108]]},
    {"kind": "step", "step": [0, 1], "shape": [], "exact": False,
     "ops": [["push", 0, [1.0]], ["push", 10, [2.0]], ["pull", 0], ["pull", 1], ["pull", 10]]},
    {"kind": "step", "step": [1, 1], "shape": [], "exact": False,
     "ops": [["push", 0, [1.0]], ["push", 10, [2.0]], ["pull", 0], ["pull", 9], ["pull", 10]]},
    # single buffered entry after eviction, then new publications (single-entry shortcut; F3 path without spilling)
    {"kind": "linear", "step": None, "shape": [2], "exact": True,
     "ops": [["push", 0, [1.0, -1.0]], ["push", 4, [3.0, 0.5]], ["pull", 4], ["pull", 4], ["push", 12, [4.0, 8.5]],
             ["pull", 6], ["pull", 13], ["pull", -3], ["pull", 12]]},
    # pull before any publication, outside the range on both sides
    {"kind": "prev", "step": None, "shape": [], "exact": False,
     "ops": [["pull", 0], ["push", 5, [1.5]], ["pull", 4], ["pull", 6], ["pull", 5], ["push", 9, [2.5]], ["pull", 10], ["pull", 7], ["pull", 9]]},
]


def request_ops(case):
    """the request sequence the adapter sees: a push-driven consumer (CallbackInput that pulls the announced time
    while it is being notified, like finam's DebugPushConsumer) pulls at every publication time, inside the
    notification, i.e. right after the publication entered the adapter"""
    if not case.get("notified"):
        return case["ops"]
    ops = []
    for op in case["ops"]:
        ops.append(op)
        if op[0] == "push":
            ops.append(["pull", op[1]])
    return ops


def make_notified(case, keep_latest=True):
    """turn a case into one with a push-driven consumer; scripted in-range pulls older than the latest publication
    would be decreasing requests (outside the domain) and are dropped"""
    ops, pubs = [], []
    for op in case["ops"]:
        if op[0] == "push":
            pubs.append(op[1])
        elif pubs and pubs[0] <= op[1] <= pubs[-1] and not (keep_latest and op[1] == pubs[-1]):
            continue
        ops.append(op)
    return dict(case, notified=True, ops=ops)


def generate(rng, tier):
    n = 1200 if tier == "quick" else 72000
    cases = list(CORPUS)
    for i in range(n):
        c = _gen_case(rng, malformed=(i % 6 == 5), kind=KINDS[i % 4])
        cases.append(make_notified(c) if i % 9 == 4 else c)
    return cases


def make_adapter(case):
    k = case["kind"]
    if k == "next":
        return fm.adapters.NextTime()
    if k == "prev":
        return fm.adapters.PreviousTime()
    if k == "linear":
        return fm.adapters.LinearTime()
    return fm.adapters.StepTime(step=case["step"][0] / case["step"][1])


def make_grid(shape):
    if not shape:
        return fm.NoGrid()
    return fm.UniformGrid(tuple(s + 1 for s in shape))


def consumer_grid(shape, flip):
    """the consumer's description of the source grid: same cells, flagged axes running the other way"""
    if not shape or not flip or not any(flip):
        return make_grid(shape)
    return fm.UniformGrid(tuple(s + 1 for s in shape), axes_increase=[not f for f in flip])


def to_source_cells(arr, src, cons, shape):
    """delivered array (consumer layout, no time axis) -> flat list in the harness' cell order (C order of the
    source data shape); cells are identified by their COORDINATES, not by their index"""
    arr = np.asarray(arr).reshape(tuple(shape))
    if not shape or cons is src:
        return arr.reshape(-1)
    vals = arr.reshape(-1, order=cons.order)
    idx = {tuple(np.round(pt, 6)): k for k, pt in enumerate(np.asarray(cons.data_points))}
    flat = np.array([vals[idx[tuple(np.round(pt, 6))]] for pt in np.asarray(src.data_points)])
    return flat.reshape(tuple(shape), order=src.order).reshape(-1)


def spill_dir():
    """ONE spill directory per worker process, shared by all cases this process runs (outside /repo and /verif)."""
    d = os.path.join(tempfile.gettempdir(), f"verif_spill_{os.getpid()}")
    os.makedirs(d, exist_ok=True)
    return d


def set_memory(ada, case, n):
    """memory limit of the adapter's buffer: 0 = everything spilled, 'mid' = 1.5 payloads (crossed mid-run),
    'huge' = never crossed.  Spilling must be invisible (C10): the model is unchanged."""
    mem = case.get("mem")
    if mem is None:
        return
    ada.memory_limit = {0: 0, "mid": int(1.5 * 8 * n), "huge": 10**12}[mem if mem == 0 else str(mem)]
    ada.memory_location = spill_dir()


def ghost_values(vs):
    return [0.5 * v + 1000.25 for v in vs]


def end_of_link(ada):
    try:
        ada.finalize()      # removes the spill files this adapter still owns
    except Exception:  # noqa
        pass
    try:
        os.rmdir(spill_dir())   # only succeeds when nothing was left behind; same path is re-created next time
    except OSError:
        pass


def _run_link(case, ghost):
    t0 = T(0)
    shape = case["shape"]
    grid = make_grid(shape)
    n = int(np.prod(shape)) if shape else 1
    out = fm.Output(name="Out")
    pulls = []
    inp = fm.CallbackInput(lambda caller, time: pull_once(time), name="In") if case.get("notified") else fm.Input(name="In")
    ada = make_adapter(case)
    set_memory(ada, case, n)
    out >> ada >> inp
    inp.ping()
    units = case.get("units", "m")
    cgrid = consumer_grid(shape, case.get("flip")) if case.get("flip") else grid
    out.push_info(fm.Info(time=t0, grid=grid, units=units))
    inp.exchange_info(fm.Info(time=t0, grid=cgrid, units=units))
    has_masks = any(op[0] == "push" and len(op) > 3 for op in case["ops"])

    def pull_once(time):
        try:
            d = inp.pull_data(time)
            m = magnitude(d)
            if has_masks:
                bits = [int(b) for b in to_source_cells(np.ma.getmaskarray(m), grid, cgrid, shape)]
                raw = to_source_cells(np.asarray(np.ma.getdata(m), dtype=float), grid, cgrid, shape)
                # what sits under a missing cell is not part of the result
                pulls.append(["ok", [0.0 if b else float(x) for x, b in zip(raw, bits)], bits])
                return
            vals = [float(x) for x in to_source_cells(np.asarray(m, dtype=float), grid, cgrid, shape)]
            pulls.append(["ok", vals])
        except Exception as e:  # noqa
            pulls.append([err_class(e)])

    try:
        for op in case["ops"]:
            if op[0] == "push":
                vs = ghost_values(op[2]) if ghost else op[2]
                data = np.array(vs, dtype=float).reshape(shape) if shape else float(vs[0])
                if len(op) > 3:
                    data = np.ma.masked_array(data, mask=np.array(op[3], dtype=bool).reshape(shape))
                out.push_data(data, T(op[1]))     # a push-driven consumer pulls inside this call
            else:
                pull_once(T(op[1]))
        # the publication times the adapter still buffers after the script (TimeCachingAdapter.data, oldest first)
        buf = [us_of(t) for t, _d in getattr(ada, "data", [])]
    finally:
        end_of_link(ada)
    return {"n": n, "pulls": pulls, "buffer": buf}


_FROZEN = []


def freeze_once():
    """the worker was forked from a parent that holds all generated cases: keep them out of every later
    gc.collect() (otherwise a collection walks millions of objects in the thorough tier)"""
    if not _FROZEN:
        gc.freeze()
        _FROZEN.append(True)


def run_impl(case):
    freeze_once()
    if case.get("mem") is not None:
        gc.collect()    # drop earlier objects so that object ids get reused (only matters for spill file names)
        # an earlier coupling in the same process, same adapter kind and spill directory, other payloads:
        # what it stored must never show up in the link under test
        _run_link(case, ghost=True)
        gc.collect()
    return _run_link(case, ghost=False)


def Z(n):
    """Z literal without scope annotation (the constructors' argument types bind Z scope); hex parses faster"""
    n = int(n)
    return hex(n) if n >= 0 else f"(-{hex(-n)})"


def Qf(x):
    """exact value of a double as the model's compact literal fq m e = m / 2^e"""
    fr = Fraction(x)
    e = fr.denominator.bit_length() - 1
    assert fr.denominator == 1 << e
    return f"(fq {Z(fr.numerator)} {e})"


def _kind_term(case):
    k = case["kind"]
    if k == "step":
        return C("KStep", Q(Fraction(case["step"][0], case["step"][1])))
    return {"next": "KNext", "prev": "KPrev", "linear": "KLinear"}[k]


def coq_case(case, obs):
    ops = []
    for op in request_ops(case):
        if op[0] == "push":
            if len(op) > 3:
                ops.append(C("VPushM", Z(op[1]), L(Qf(v) for v in op[2]), L(B(b) for b in op[3])))
            else:
                ops.append(C("VPush", Z(op[1]), L(Qf(v) for v in op[2])))
        else:
            ops.append(C("VPull", Z(op[1])))
    return C("mk_case", _kind_term(case), N(obs["n"]), B(case["exact"]), L(ops))


def coq_results(case, obs):
    """the pull results as a Coq list of vres (also used by C12)"""
    res = []
    for r in obs["pulls"]:
        if r[0] == "ok":
            if all(np.isfinite(v) for v in r[1]):
                if len(r) > 2:
                    res.append(C("VOkM", L(Qf(v) for v in r[1]), L(B(b) for b in r[2])))
                else:
                    res.append(C("VOk", L(Qf(v) for v in r[1])))
            else:
                res.append("VOther")
        elif r[0] == "TimeError":
            res.append("VErrTime")
        elif r[0] == "NoDataError":
            res.append("VErrNoData")
        else:
            res.append("VOther")
    return L(res)


def coq_obs(case, obs):
    buf = obs.get("buffer")
    return P(coq_results(case, obs), NONE if buf is None else Some(L(ZZ(t) for t in buf)))


# ----------------------------------------------------------------------------
# property monitor: the mathematical definition, recomputed from the history
# ----------------------------------------------------------------------------
def definition(kind, step, times, vals, t):
    """value of the interpolant of the full history at an in-range time t (Fractions)"""
    i_hi = bisect_left(times, t)          # first publication at or after t
    i_lo = bisect_right(times, t) - 1     # last publication at or before t
    if kind == "next":
        return vals[i_hi]
    if kind == "prev":
        return vals[i_lo]
    if i_lo == i_hi:
        return vals[i_lo]
    w = Fraction(t - times[i_lo], times[i_hi] - times[i_lo])
    if kind == "linear":
        return vals[i_lo] + w * (vals[i_hi] - vals[i_lo])
    return vals[i_hi] if w > Fraction(step[0], step[1]) else vals[i_lo]


def missing_definition(kind, step, times, miss, t):
    """is the cell missing in the result?  (miss = the cell's missing flag per publication)"""
    i_hi = bisect_left(times, t)
    i_lo = bisect_right(times, t) - 1
    if kind == "next":
        return miss[i_hi]
    if kind == "prev":
        return miss[i_lo]
    if i_lo == i_hi:
        return miss[i_lo]
    if kind == "linear":
        return miss[i_lo] or miss[i_hi]      # computed from both neighbours
    w = Fraction(t - times[i_lo], times[i_hi] - times[i_lo])
    return miss[i_hi] if w > Fraction(step[0], step[1]) else miss[i_lo]


def _walk(case, obs):
    """yields (op, result, verdict, info) for every pull that is inside the property's domain"""
    times, vals, miss = [], [], []
    last = None
    it = iter(obs["pulls"])
    n = obs["n"]
    fails = []
    stats = {"ok": 0, "between": 0, "intervals": set(), "pubs": 0}
    for op in request_ops(case):
        if op[0] == "push":
            if times and op[1] <= times[-1]:
                return fails, stats  # outside the domain from here on
            times.append(op[1])
            vals.append([Fraction(v) for v in op[2]])
            miss.append([bool(b) for b in op[3]] if len(op) > 3 else [False] * len(op[2]))
            stats["pubs"] += 1
            continue
        t = op[1]
        r = next(it)
        if not times:
            if r != ["NoDataError"]:
                fails.append(f"pull at {t} before any publication returned {r}")
            continue
        if t < times[0] or t > times[-1]:
            if r != ["TimeError"]:
                fails.append(f"request {t} outside the published range [{times[0]},{times[-1]}] returned {r} (no extrapolation allowed)")
            continue
        if last is not None and t < last:
            return fails, stats      # decreasing request: outside the domain from here on
        last = t
        if r[0] == "ok" and not all(np.isfinite(v) for v in r[1]):
            fails.append(f"pull at {t} delivered a non-finite value {r[1]}")
            return fails, stats
        if r[0] != "ok" or len(r[1]) != n:
            fails.append(f"in-range request {t} (range [{times[0]},{times[-1]}]) returned {r}")
            continue
        stats["ok"] += 1
        on_pub = t in times
        if not on_pub:
            stats["between"] += 1
        stats["intervals"].add(bisect_left(times, t))
        got_missing = r[2] if len(r) > 2 else [0] * n
        for j in range(n):
            col = [v[j] for v in vals]
            want_missing = missing_definition(case["kind"], case["step"], times, [m[j] for m in miss], t)
            if bool(got_missing[j]) != want_missing:
                fails.append(f"{case['kind']} at t={t} cell {j}: delivered {'a missing cell' if got_missing[j] else repr(r[1][j])}, "
                             f"the publication(s) it is computed from {'have it missing' if want_missing else 'have a value there'}")
                break
            if want_missing:
                continue
            want = definition(case["kind"], case["step"], times, col, t)
            got = Fraction(r[1][j])
            scale = 1 + max(abs(x) for x in col)
            if on_pub or case["kind"] != "linear":
                if got != want:
                    fails.append(f"{case['kind']} at t={t} component {j}: delivered {float(got)!r}, definition gives {float(want)!r} exactly"
                                 + (" (publication time)" if on_pub else ""))
                    break
            elif abs(got - want) > Fraction(1, 10**9) * scale:
                fails.append(f"linear at t={t} component {j}: delivered {float(got)!r}, linear interpolant is {float(want)!r}")
                break
    return fails, stats


def monitor(case, obs):
    fails, _ = _walk(case, obs)
    return fails[0] if fails else None


def nontrivial(case, obs):
    fails, st = _walk(case, obs)
    return st["pubs"] >= 3 and st["ok"] >= 2 and st["between"] >= 1 and len(st["intervals"]) >= 2


def distribution(cases, obss):
    kinds = Counter(c["kind"] for c in cases)
    steps = Counter(f"{c['step'][0]}/{c['step'][1]}" for c in cases if c["step"])
    shapes = Counter("x".join(map(str, c["shape"])) or "scalar" for c in cases)
    res = Counter(r[0] for o in obss if "pulls" in o for r in o["pulls"])
    exact = sum(1 for c in cases if c["exact"])
    nops = Counter(min(len(c["ops"]) // 10 * 10, 40) for c in cases)
    mems = Counter(str(c.get("mem")) for c in cases)
    units = Counter(c.get("units", "m") or "dimensionless" for c in cases)
    extra = {"push_driven_consumer": sum(1 for c in cases if c.get("notified")), "value_series": dict(Counter(str(c.get("series")) for c in cases)),
             "consumer_grid_layout_differs": sum(1 for c in cases if c.get("flip") and any(c["flip"]))}
    return {**extra, "kinds": dict(kinds), "step_positions": dict(steps), "payload_shapes": dict(shapes), "memory_limit": dict(mems),
            "masked_payload_cases": sum(1 for c in cases if any(o[0] == "push" and len(o) > 3 for o in c["ops"])), "payload_units": dict(units),
            "pull_results": dict(res), "exact_dyadic_linear_cases": exact, "ops_per_case_bucket": dict(nops)}


def shrink_candidates(case):
    ops = case["ops"]
    if case["shape"]:
        if not any(o[0] == "push" and len(o) > 3 for o in ops):
            yield dict(case, shape=[], flip=None, ops=[[o[0], o[1], o[2][:1]] if o[0] == "push" else o for o in ops])
    for i in range(len(ops) - 1, -1, -1):
        yield dict(case, ops=ops[:i] + ops[i + 1:])
