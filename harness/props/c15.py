"""C15 — canonical form and conversion between compatible grids preserve located values.

Correspondence: pairs of real grids (UniformGrid / RectilinearGrid / EsriGrid) are built through the
public constructors; data whose values encode the physical location (canonical index along the
increasing axes) goes (a) through the public grid methods to_canonical / from_canonical /
compatible_with / == / get_transform_to and (b) through a real `Output >> Input` link (ping, info
exchange, push_data, pull_data; the data carries the leading time axis).  Every resulting array
(shape, values, mask) or error class is compared with the Coq model GridCanon.
"""
import itertools
from fractions import Fraction

import numpy as np

from ..coqgen import B, C, L, N, NONE, P, Some, Z
from ..fin import fm, T
from . import c14 as G

ID = "C15"
COQ_IMPORTS = "From FV Require Import Base Grid GridCanon."
COQ_CHECK = "c15_check"
COQ_MODEL_OBS = "c15_model"
RULE = (
    "all pairs of layouts (axes_reversed x axes_increase vectors; order drawn at random since it does not enter) of "
    "the same geometry for dims up to 3x2x2 (quick: a deterministic sample of the product) / 4x3x2 (thorough: full "
    "product), cell and point data, plus cross-class pairs (Uniform/Rectilinear/Esri of the same geometry) and "
    "incompatible pairs (different dims, shifted origin, other location, other crs, length-1 vs length-2 axis), "
    "uniform grids whose single-node axes declare a different spacing (same locations); about a third of the grid "
    "objects are obtained by casts / copies (to_rectilinear, to_uniform, chains, copy, deep copy) of the constructed "
    "grid and are compared with the model of the directly built grid with the same axes and layout; data "
    "in the grid's data shape, with a leading time axis of length 1 or 2, in canonical shape or of a wrong shape, "
    "plain and masked; each pair through the grid methods, through a real Output >> Input link, and as a script on "
    "the link (static output and input read 2-4 times with and without a time; non-static link with 2-3 "
    "publications each read 1-3 times; payload as matrix or as flat 1-D array in the grid's order; the mask carried "
    "by the data, declared by the source, or declared by both ends each in its own layout) where every read is judged; plus scripts on 2-3 living grid objects "
    "(compatible_with / == / get_transform_to against the same partner repeatedly, data_location changes accepted "
    "and rejected, shallow and deep copies) where every answer is judged against the objects' current fields; "
    "relay chains in a real Composition (CallbackGenerator[A] -> TimeTrigger with input grid B -> DebugConsumer[C], three "
    "layouts of one geometry, 3 data sets, each judged at the consumer); pairs where both grids carry a reference system "
    "(same, different, or differing only in the axis order: EPSG:4326 / OGC:CRS84, EPSG:4269 / OGC:CRS83); "
    "non-trivial = the grids are compatible and the two layouts differ (a real transformation happens) and the grid "
    "has >= 2 data elements; distinct by canonical case hash"
)
TRUSTED = [
    "GridCanon.v models numpy transpose / flip / moveaxis as re-indexing of (shape, index function); np.allclose in "
    "compatible_with is modelled as exact equality of rationals (generated axes are either identical or differ by >= 1/4)",
    "the link driver uses Output >> Input directly (ping, push_info, exchange_info, push_data, pull_data), units unset; "
    "relay cases run a real Composition with finam's CallbackGenerator, TimeTrigger and DebugConsumer",
    "a crs is an opaque tag in the model: different tags are different reference systems (the tags used are EPSG:4326, "
    "OGC:CRS84, EPSG:4269, OGC:CRS83, EPSG:32632, which are pairwise different systems, two pairs differing in axis order only)",
]
ASSUMPTIONS = [
    "domain of the theorems: well-formed grids (one direction flag per axis, axes non-empty; compatible_iff: strictly "
    "increasing axes), data of shape data_shape (round trip) resp. T :: data_shape (link)",
]
CASE_TIMEOUT = 60

fr = G.fr
ORIG = [Fraction(3, 4), Fraction(-2), Fraction(1)]
HALF = Fraction(1, 2)
WIDE = Fraction(5, 2)


def vary_spacing(d, rng, p=0.5):
    """a uniform grid with a single-node axis may declare any spacing there"""
    if d["cls"] == "uniform" and d["geom"] == 0 and 1 in d["dims"] and rng.random() < p:
        d["geom"] = 3
    return d


# ---------------------------------------------------------------------------------------------
# grid descriptions
# ---------------------------------------------------------------------------------------------
# reference systems: different codes are different systems; 1/2 and 3/4 differ ONLY in the order of their axes
# (lat, lon) / (lon, lat): the same numbers on the first and second axis are then different locations
CRS_VALUES = [None, "EPSG:4326", "OGC:CRS84", "EPSG:4269", "OGC:CRS83", "EPSG:32632"]


def vary_crs(g, h, rng, p=0.25):
    """both grids carry a reference system: the same one, or another one (also one that differs in axis order only)"""
    if rng.random() < p:
        g["crs"] = rng.randrange(1, len(CRS_VALUES))
        h["crs"] = g["crs"] if rng.random() < 0.5 else rng.choice([c for c in (1, 2, 3, 4) if c != g["crs"]])
    return g, h


CASTS = ("to_rectilinear", "to_uniform")
VIAS = {
    "uniform": [["to_rectilinear"], ["to_rectilinear", "copy"], ["copy", "to_rectilinear"], ["copy"], ["deepcopy"],
                ["to_rectilinear", "deepcopy"]],
    "esri": [["to_rectilinear"], ["to_uniform"], ["to_uniform", "to_rectilinear"], ["to_rectilinear", "copy"],
             ["to_uniform", "copy"], ["copy"]],
    "rect": [["copy"], ["deepcopy"]],
}


def vary_via(d, rng, p=0.35):
    """the grid object is obtained by casts / copies of the constructed grid: same locations, same layout"""
    if rng.random() < p:
        d["via"] = list(rng.choice(VIAS[d["cls"]]))
    return d


def is_esri(d):
    """still an EsriGrid object (valid_locations = CELLS only)?"""
    return d["cls"] == "esri" and not any(v in CASTS for v in d.get("via", []))


def geom_axes(geom, dims):
    """increasing axes of geometry number `geom`"""
    axes = []
    for k, n in enumerate(dims):
        if geom == 1:
            axes.append(G._rect_axis(n, k, True))
        else:
            o = ORIG[k] + (Fraction(1, 4) if (geom == 2 and k == 0) else 0)
            axes.append([o + i * HALF for i in range(n)])
    return axes


def gdesc(cls, geom, dims, order, rev, inc, loc, crs=0):
    if cls == "esri":
        order, rev, inc, loc = order, True, [True, False], "CELLS"
    return {"cls": cls, "geom": geom, "dims": list(dims), "order": order, "rev": bool(rev), "inc": [bool(b) for b in inc],
            "loc": loc, "crs": crs}


def spec_case(d):
    """c14-style case dict (constructor arguments) of a description"""
    dims = d["dims"]
    if d["cls"] == "uniform":
        o = [ORIG[k] + (Fraction(1, 4) if (d["geom"] == 2 and k == 0) else 0) for k in range(len(dims))]
        # geometry 3 = geometry 0 declared with another spacing on the single-node axes (where a spacing
        # affects no coordinate): the same data locations
        sp = [WIDE if (d["geom"] == 3 and n == 1) else HALF for n in dims]
        return {"cls": "uniform", "dims": dims, "spacing": [fr(x) for x in sp], "origin": [fr(x) for x in o],
                "inc": d["inc"], "order": d["order"], "rev": d["rev"], "loc": d["loc"]}
    if d["cls"] == "rect":
        axes = geom_axes(d["geom"], dims)
        return {"cls": "rect", "axes": [[fr(x) for x in (ax if d["inc"][k] else ax[::-1])] for k, ax in enumerate(axes)],
                "order": d["order"], "rev": d["rev"], "loc": d["loc"]}
    return {"cls": "esri", "ncols": dims[0] - 1, "nrows": dims[1] - 1, "cs": fr(HALF), "xll": fr(ORIG[0]), "yll": fr(ORIG[1]),
            "order": d["order"], "rev": True, "loc": "CELLS"}


def norm_inc(d):
    return [b or n == 1 for b, n in zip(d["inc"], d["dims"])]


def loc_shape(d):
    return [n if d["loc"] == "POINTS" else max(n - 1, 1) for n in d["dims"]]


def data_shape(d):
    s = loc_shape(d)
    return s[::-1] if d["rev"] else s


def canon_of(d, idx):
    """canonical index (xyz, increasing) of the element at data index idx"""
    i = list(idx)[::-1] if d["rev"] else list(idx)
    ls, inc = loc_shape(d), norm_inc(d)
    return [i[k] if inc[k] else ls[k] - 1 - i[k] for k in range(len(i))]


def code(c, t=0):
    return 1 + sum(ck * 10 ** k for k, ck in enumerate(c)) + 1000 * t


def same_located_axes(g, h):
    return (len(g["dims"]) == len(h["dims"]) and g["crs"] == h["crs"] and g["loc"] == h["loc"]
            and geom_axes(g["geom"], g["dims"]) == geom_axes(h["geom"], h["dims"]))


def same_layout(g, h):
    return g["rev"] == h["rev"] and norm_inc(g) == norm_inc(h)


# ---------------------------------------------------------------------------------------------
# generator
# ---------------------------------------------------------------------------------------------
def make_case(kind, g, h, mode, rng, masked=None):
    ds = data_shape(g)
    if mode in ("data", "time1", "time2"):
        tn = {"data": 0, "time1": 1, "time2": 2}[mode]
        vals = []
        for t in range(max(tn, 1)):
            for idx in itertools.product(*[range(n) for n in ds]):
                vals.append(code(canon_of(g, idx), t))
        shape = ([tn] if tn else []) + ds
    elif mode == "canon":
        shape = loc_shape(g)
        vals = [code(c) for c in itertools.product(*[range(n) for n in shape])]
    else:
        shape = rng.choice([ds[::-1] + [2], [2] + ds[::-1], [n + 1 for n in ds], ds[:-1] or [7], ds + [2], [3] + ds])
        vals = list(range(1, int(np.prod(shape)) + 1))
    if masked is None:
        masked = rng.random() < 0.4
    if masked:
        m = rng.randrange(3)
        vals = [None if (v % 3 == m and rng.random() < 0.8) else v for v in vals]
        if all(v is not None for v in vals):
            vals[rng.randrange(len(vals))] = None
    return {"kind": kind, "g": g, "h": h, "mode": mode, "shape": shape, "vals": vals, "masked": masked}


SEQ_OFF = 5000  # data set number k carries the location codes + k * SEQ_OFF


def make_seq_case(g, h, static, mode, npulls, rng, masked=None, flat=False, declare=None, push_masked=True):
    """script on one link: static -> one publication read several times (time None and a time);
    non-static -> several publications, each read once or more at its own time.
    flat: the source pushes 1-D arrays of data_size entries in the grid's order (mode "data" only).
    declare: None | "source" | "both" -- the (one, fixed) mask is declared in the Info of the source / of both ends,
    each end giving the same physical mask as a boolean array in its own layout; push_masked says whether the
    pushed arrays carry the mask themselves or are plain (then tools.prepare applies the declared mask)."""
    if flat:
        mode = "data"
    base = make_case("link", g, h, mode, rng, masked=(True if declare else masked))
    holes = [v is None for v in base["vals"]]
    plain = make_case("link", g, h, mode, rng, masked=False)["vals"]
    sets = []
    for k, _ in enumerate(npulls):
        sets.append({"shape": base["shape"], "vals": [None if m else v + k * SEQ_OFF for v, m in zip(plain, holes)]})
    ops = []
    for k, n in enumerate(npulls):
        ops.append(["push", k])
        ops += [["pull"]] * n
    return {"kind": "linkseq", "g": g, "h": h, "static": bool(static), "mode": mode, "sets": sets, "ops": ops,
            "masked": any(holes), "flat": bool(flat), "declare": declare, "push_masked": bool(push_masked or not declare)}


def mask_arrays(case):
    """the declared mask in the layout of the source and of the input (same physical locations)"""
    g, h = case["g"], case["h"]
    ds = data_shape(g)
    holes = case["sets"][0]["vals"][: int(np.prod(ds))]
    mg = np.array(holes_bool(holes)).reshape(ds)
    masked_canon = {tuple(canon_of(g, idx)) for idx in itertools.product(*[range(n) for n in ds]) if mg[idx]}
    dh = data_shape(h)
    mh = np.zeros(dh, dtype=bool)
    for idx in itertools.product(*[range(n) for n in dh]):
        mh[idx] = tuple(canon_of(h, idx)) in masked_canon
    return mg, mh


def holes_bool(vals):
    return [v is None for v in vals]


def make_relay_case(g, m, h, rng, masked=None, nsteps=2):
    """source[g] -> relay component with its own input grid m (finam's TimeTrigger) -> consumer[h] in a Composition;
    data set of day k carries the location codes + k * SEQ_OFF (one fixed mask)"""
    base = make_case("link", g, h, "data", rng, masked=masked)
    holes = [v is None for v in base["vals"]]
    plain = make_case("link", g, h, "data", rng, masked=False)["vals"]
    sets = [{"shape": base["shape"], "vals": [None if x else v + k * SEQ_OFF for v, x in zip(plain, holes)]}
            for k in range(nsteps + 1)]
    return {"kind": "relay", "g": g, "m": m, "h": h, "mode": "data", "sets": sets, "nsteps": nsteps, "masked": any(holes)}


def make_gridseq(rng):
    """script on 2-3 living grid objects: compare (same partner repeatedly), relocate, copy"""
    d = rng.choice([1, 2, 2, 3])
    dims = [rng.randint(1, 3) for _ in range(d)]
    use_esri = d == 2 and rng.random() < 0.25
    if use_esri:
        dims = [max(2, n) for n in dims]

    def one(k):
        cls = "esri" if (use_esri and k == 1) else rng.choice(["uniform", "rect"])
        dd = list(dims)
        if k == 2 and rng.random() < 0.5:
            j = rng.randrange(d)
            dd[j] = dd[j] + 1
        return gdesc(cls, 0, dd, rng.choice("CF"), rng.random() < 0.5, [rng.random() < 0.5 for _ in range(d)],
                     rng.choice(["CELLS", "POINTS"]))

    grids = [vary_via(vary_spacing(one(k), rng, 0.4), rng, 0.4) for k in range(rng.choice([2, 2, 3]))]
    if rng.random() < 0.3:
        base = rng.randrange(1, 5)
        for gd in grids:
            gd["crs"] = base if rng.random() < 0.6 else rng.randrange(1, 5)
    nobj = len(grids)
    ops = []
    pair = (0, 1)
    for _ in range(rng.randint(4, 14)):
        r = rng.random()
        if r < 0.5:
            if rng.random() < 0.35:
                pair = (rng.randrange(nobj), rng.randrange(nobj))
            i, j = pair if rng.random() < 0.7 else pair[::-1]
            ops.append([rng.choice(["compat", "compat", "eq", "trans"]), i, j])
        elif r < 0.85:
            i = rng.choice(pair) if rng.random() < 0.8 else rng.randrange(nobj + 1)
            ops.append(["set", i, rng.choice(["CELLS", "POINTS"])])
        else:
            i = rng.choice(pair)
            ops.append(["copy", i, rng.random() < 0.3])
            if i < nobj:
                nobj += 1
                if rng.random() < 0.7:
                    pair = (nobj - 1, pair[1] if pair[1] != i else pair[0])
    return {"kind": "gridseq", "grids": grids, "ops": ops, "masked": False, "mode": "objects"}


def layouts(d):
    return [(rev, inc) for rev in (False, True) for inc in itertools.product((True, False), repeat=d)]


def _pairs(maxdims):
    out = []
    for d in (1, 2, 3):
        for dims in itertools.product(*[range(1, m + 1) for m in maxdims[:d]]):
            for loc in ("CELLS", "POINTS"):
                for lg in layouts(d):
                    for lh in layouts(d):
                        out.append((dims, loc, lg, lh))
    return out


def _mode(rng, kind):
    r = rng.random()
    if kind == "link":
        return "data" if r < 0.5 else "time1"
    return "data" if r < 0.45 else "time1" if r < 0.7 else "time2" if r < 0.8 else "canon" if r < 0.92 else "wrong"


def _cross(rng, kind):
    """cross-class / incompatible pairs"""
    d = rng.choice([1, 2, 2, 2, 3])
    dims = [rng.randint(1, 3) for _ in range(d)]
    cls_g = rng.choice(["uniform", "rect", "esri"] if d == 2 else ["uniform", "rect"])
    cls_h = rng.choice(["uniform", "rect", "esri"] if d == 2 else ["uniform", "rect"])
    if "esri" in (cls_g, cls_h):
        dims = [max(2, n) for n in dims]

    def lay():
        return rng.choice("CF"), rng.random() < 0.5, [rng.random() < 0.5 for _ in range(d)]

    loc = rng.choice(["CELLS", "POINTS"]) if "esri" not in (cls_g, cls_h) or rng.random() < 0.2 else "CELLS"
    og, rg, ig = lay()
    oh, rh, ih = lay()
    g = gdesc(cls_g, 0 if cls_g != "rect" else rng.choice([0, 0, 1]), dims, og, rg, ig, loc)
    hdims = list(dims)
    hgeom = g["geom"] if cls_h == "rect" else 0
    hloc, hcrs = loc, 0
    r = rng.random()
    if r < 0.15:
        k = rng.randrange(d)
        hdims[k] = max(1 if cls_h != "esri" else 2, hdims[k] + rng.choice([-1, 1]))
    elif r < 0.25 and cls_h != "esri":
        hgeom = 2
    elif r < 0.33:
        hloc = "POINTS" if loc == "CELLS" else "CELLS"
    elif r < 0.4:
        hcrs = 1
    elif r < 0.5 and cls_h != "esri":
        # length-1 against length-2 axis: same cell shape, numpy broadcasting in allclose
        k = rng.randrange(d)
        if cls_g != "esri":
            g["dims"][k] = 1
            hdims[k] = 2
    elif r < 0.55 and d < 3 and cls_h != "esri":
        hdims = hdims + [1]
        ih = ih + [True]
    h = gdesc(cls_h, hgeom, hdims, oh, rh, ih, hloc, hcrs)
    g, h = vary_spacing(g, rng, 0.3), vary_spacing(h, rng, 0.3)
    g, h = vary_via(g, rng, 0.5), vary_via(h, rng, 0.5)
    if hcrs == 0:
        g, h = vary_crs(g, h, rng, 0.4)
    return make_case(kind, g, h, _mode(rng, kind), rng)


def _via(d, *via):
    d = dict(d)
    d["via"] = list(via)
    return d


_U = lambda rev, inc, loc="CELLS", dims=(4, 3): gdesc("uniform", 0, dims, "F", rev, inc, loc)  # noqa: E731
CORPUS_SPEC = [
    # finding F7 (fixed): UniformGrid((4,3)) -> UniformGrid((4,3), axes_increase=[True, False]) over a link
    ("link", _U(False, [True, True]), _U(False, [True, False]), "data"),
    ("link", _U(False, [True, True]), _U(True, [True, True]), "time1"),
    ("link", _U(True, [True, False]), _U(False, [False, True]), "data"),
    ("link", _U(True, [True, False]), _U(True, [False, True]), "time1"),
    ("methods", _U(False, [True, True]), _U(True, [True, False]), "time1"),
    ("methods", _U(False, [True, True]), _U(True, [True, False]), "time2"),
    # tests/data/test_grid_spec.py::test_compatibility: ESRI grid against the uniform grid of the same cells
    ("methods", gdesc("esri", 0, (4, 3), "C", True, [True, False], "CELLS"), _U(False, [True, True]), "data"),
    ("link", gdesc("esri", 0, (4, 3), "C", True, [True, False], "CELLS"), _U(False, [True, True]), "data"),
    # equal layouts: passed through
    ("link", _U(True, [False, True], "POINTS"), _U(True, [False, True], "POINTS"), "time1"),
    # 1-d reversed, point data
    ("link", gdesc("uniform", 0, (3,), "F", True, [False], "POINTS"), gdesc("uniform", 0, (3,), "C", False, [True], "POINTS"), "data"),
    # incompatible
    ("link", _U(False, [True, True]), _U(False, [True, True], dims=(4, 4)), "data"),
    ("link", _U(False, [True, True]), _U(False, [True, True], "POINTS"), "data"),
    ("methods", gdesc("uniform", 0, (1, 3), "F", False, [True, True], "CELLS"),
     gdesc("uniform", 0, (2, 3), "F", False, [True, True], "CELLS"), "data"),
    ("link", gdesc("uniform", 0, (1, 3), "F", False, [True, True], "CELLS"),
     gdesc("uniform", 0, (2, 3), "F", False, [True, True], "CELLS"), "data"),
    # all axes of length 1: cell and point data have the same shape but are different locations
    ("methods", gdesc("uniform", 0, (1,), "F", False, [True], "CELLS"), gdesc("uniform", 0, (1,), "F", False, [True], "POINTS"), "data"),
    ("link", gdesc("uniform", 0, (1, 1), "F", False, [True, True], "CELLS"),
     gdesc("rect", 0, (1, 1), "C", True, [True, True], "POINTS"), "data"),
    ("methods", gdesc("rect", 0, (1, 1, 1), "F", True, [True, True, True], "POINTS"),
     gdesc("uniform", 0, (1, 1, 1), "F", False, [True, True, True], "CELLS"), "time1"),
    # seeded defect C15_e: uniform grids with a single-node axis that declare different spacings there
    # describe the same locations (3-D layer, 2-D transect; cells and points)
    ("methods", gdesc("uniform", 0, (4, 3, 1), "F", False, [True, True, True], "CELLS"),
     gdesc("uniform", 3, (4, 3, 1), "F", False, [True, True, True], "CELLS"), "data"),
    ("link", gdesc("uniform", 0, (4, 3, 1), "F", False, [True, True, True], "CELLS"),
     gdesc("uniform", 3, (4, 3, 1), "F", True, [True, False, True], "CELLS"), "data"),
    ("link", gdesc("uniform", 3, (4, 1), "C", True, [False, True], "POINTS"),
     gdesc("uniform", 0, (4, 1), "F", False, [True, True], "POINTS"), "time1"),
    ("methods", gdesc("uniform", 3, (1, 3, 2), "F", False, [True, True, False], "POINTS"),
     gdesc("uniform", 0, (1, 3, 2), "F", False, [True, True, False], "POINTS"), "time1"),
    ("link", gdesc("uniform", 3, (1,), "F", False, [True], "CELLS"), gdesc("uniform", 0, (1,), "F", False, [True], "CELLS"), "data"),
    # seeded defect C15_k: grids obtained by casts (to_rectilinear / to_uniform / copies of them) from grids with a
    # bottom-up axis behave like the directly built grid with the same axes and layout
    ("methods", _via(gdesc("esri", 0, (4, 3), "C", True, [True, False], "CELLS"), "to_rectilinear"), _U(False, [True, True]), "data"),
    ("link", _via(gdesc("esri", 0, (4, 3), "C", True, [True, False], "CELLS"), "to_rectilinear"), _U(False, [True, True]), "data"),
    ("link", _U(False, [True, True]), _via(gdesc("esri", 0, (4, 3), "C", True, [True, False], "CELLS"), "to_uniform", "to_rectilinear"), "time1"),
    ("methods", _via(_U(False, [True, False]), "to_rectilinear"), _U(False, [True, True]), "time1"),
    ("link", _via(_U(False, [False, True], "POINTS"), "to_rectilinear", "copy"), _U(True, [True, True], "POINTS"), "data"),
    ("link", _via(gdesc("uniform", 0, (3, 2, 3), "F", True, [True, False, False], "POINTS"), "copy", "to_rectilinear"),
     gdesc("uniform", 0, (3, 2, 3), "F", True, [True, True, True], "POINTS"), "data"),
    ("methods", _via(gdesc("esri", 0, (4, 3), "C", True, [True, False], "CELLS"), "to_uniform"),
     _via(gdesc("esri", 0, (4, 3), "C", True, [True, False], "CELLS"), "to_rectilinear"), "canon"),
    # other crs, otherwise identical
    ("methods", _U(False, [True, True]), gdesc("uniform", 0, (4, 3), "F", True, [True, False], "CELLS", 1), "data"),
    ("link", _U(False, [True, True]), gdesc("uniform", 0, (4, 3), "F", True, [True, False], "CELLS", 1), "data"),
]


_E = gdesc("esri", 0, (5, 4), "C", True, [True, False], "CELLS")
CORPUS_SEQ = [
    # seeded defect C15_b: a static input must not convert its cached data again
    (_U(False, [True, True], dims=(5, 4)), _U(False, [True, False], dims=(5, 4)), True, "data", [4]),
    (_U(False, [True, True], dims=(4, 4)), _U(True, [True, True], dims=(4, 4)), True, "data", [3]),
    (_E, _U(False, [True, True], dims=(5, 4)), True, "time1", [3]),
    (_U(True, [False, True], "POINTS", dims=(3, 2)), _U(False, [True, False], "POINTS", dims=(3, 2)), True, "data", [2]),
    (gdesc("uniform", 0, (4, 3, 1), "F", False, [True, True, True], "CELLS"),
     gdesc("uniform", 3, (4, 3, 1), "F", True, [True, False, True], "CELLS"), True, "data", [2]),
    # repeated reads on a non-static link
    (_U(False, [True, True], dims=(5, 4)), _U(True, [True, False], dims=(5, 4)), False, "data", [2, 1, 3]),
    (_E, _U(False, [False, True], dims=(5, 4)), False, "time1", [1, 2]),
    # equal layouts / incompatible grids
    (_U(True, [True, False]), _U(True, [True, False]), True, "data", [3]),
    (_U(False, [True, True]), _U(False, [True, True], dims=(4, 4)), True, "data", [2]),
]


_GC = _U(False, [True, True], dims=(4, 3))
_GP = _U(True, [True, False], "POINTS", dims=(4, 3))
_R3 = gdesc("rect", 1, (3, 2, 2), "C", True, [True, False, True], "POINTS")
CORPUS_GRIDSEQ = [
    # seeded defect C15_d: compare, relocate a copy / the object / the partner, compare with the same partner again
    ([_GC, _U(True, [True, False], dims=(4, 3))],
     [["compat", 0, 1], ["copy", 0, False], ["set", 2, "POINTS"], ["compat", 2, 1], ["compat", 1, 2], ["trans", 2, 1],
      ["set", 0, "POINTS"], ["compat", 0, 1], ["compat", 1, 0], ["eq", 0, 1], ["set", 1, "POINTS"], ["compat", 0, 1],
      ["compat", 1, 0], ["trans", 0, 1], ["eq", 2, 0]]),
    ([_GP, _GC], [["compat", 0, 1], ["eq", 0, 1], ["set", 0, "CELLS"], ["compat", 0, 1], ["trans", 0, 1], ["eq", 0, 1],
                  ["copy", 1, True], ["set", 2, "POINTS"], ["compat", 2, 0], ["compat", 0, 2]]),
    ([_R3, gdesc("rect", 1, (3, 2, 2), "F", False, [True, True, True], "POINTS")],
     [["trans", 0, 1], ["set", 1, "CELLS"], ["trans", 0, 1], ["compat", 0, 1], ["set", 0, "CELLS"], ["trans", 0, 1]]),
    ([gdesc("uniform", 0, (4, 3, 1), "F", False, [True, True, True], "CELLS"),
      gdesc("uniform", 3, (4, 3, 1), "C", True, [True, True, True], "CELLS"),
      gdesc("rect", 0, (4, 3, 1), "F", False, [True, True, True], "CELLS")],
     [["compat", 0, 1], ["compat", 1, 0], ["eq", 0, 1], ["trans", 0, 1], ["compat", 1, 2], ["set", 0, "POINTS"],
      ["set", 1, "POINTS"], ["compat", 0, 1], ["trans", 1, 0]]),
    ([_via(gdesc("esri", 0, (4, 3), "C", True, [True, False], "CELLS"), "to_rectilinear"), _GC,
      _via(_U(True, [True, False]), "to_rectilinear", "copy")],
     [["compat", 0, 1], ["eq", 0, 2], ["trans", 0, 1], ["set", 0, "POINTS"], ["compat", 0, 1], ["set", 1, "POINTS"],
      ["trans", 0, 1], ["eq", 2, 0]]),
    ([gdesc("esri", 0, (4, 3), "C", True, [True, False], "CELLS"), _GC],
     [["compat", 0, 1], ["set", 0, "POINTS"], ["compat", 0, 1], ["set", 1, "POINTS"], ["compat", 0, 1], ["compat", 1, 0],
      ["trans", 1, 0], ["compat", 0, 5]]),
]


_ES = gdesc("esri", 0, (4, 3), "C", True, [True, False], "CELLS")
CORPUS_SEQ_X = [
    # seeded defect C15_g: flat data pushed on a source with reversed axes (Esri, reversed uniform / rectilinear; 2-D, 3-D)
    (_ES, _U(False, [True, True]), False, "data", [1, 1], dict(flat=True, masked=False)),
    (_ES, _ES, True, "data", [2], dict(flat=True, masked=False)),
    (gdesc("esri", 0, (4, 3), "F", True, [True, False], "CELLS"), _U(False, [True, False]), False, "data", [1],
     dict(flat=True, declare="source", push_masked=False)),
    (gdesc("uniform", 0, (4, 3, 3), "F", True, [True, True, False], "CELLS"),
     gdesc("uniform", 0, (4, 3, 3), "C", False, [True, True, True], "CELLS"), False, "data", [1, 2], dict(flat=True, masked=False)),
    (gdesc("rect", 1, (3, 2, 4), "C", True, [False, True, True], "POINTS"),
     gdesc("rect", 1, (3, 2, 4), "C", True, [False, True, True], "POINTS"), True, "data", [2], dict(flat=True, masked=True)),
    (_U(False, [True, True], "POINTS"), _U(True, [True, True], "POINTS"), False, "data", [1], dict(flat=True, masked=False)),
    # seeded defect C15_h: both ends declare the same physical mask, each in its own layout (axes_reversed differs)
    (_U(True, [True, True]), _U(False, [True, True]), False, "data", [1, 1], dict(declare="both", push_masked=False)),
    (_ES, _U(False, [True, True]), True, "data", [2], dict(declare="both", push_masked=True)),
    (gdesc("uniform", 0, (4, 3, 2), "F", False, [True, False, True], "POINTS"),
     gdesc("rect", 0, (4, 3, 2), "C", True, [True, True, True], "POINTS"), False, "time1", [2], dict(declare="both", push_masked=False)),
    (_U(False, [True, False]), _ES, False, "data", [1], dict(declare="both", flat=True, push_masked=False)),
    # cast grids on a static link / flat pushes
    (_via(_ES, "to_rectilinear"), _U(False, [True, True]), True, "data", [3], dict(masked=True)),
    (_via(_ES, "to_uniform", "to_rectilinear"), _via(_U(False, [False, False]), "to_rectilinear", "copy"), False, "data", [1, 2],
     dict(flat=True, declare="both", push_masked=False)),
]


CORPUS_RELAY = [
    # seeded defect C15_l: the relay's input declares layout B; what it passes on is described by the info of its exchange
    (_U(False, [True, True]), _U(False, [True, False]), _U(False, [True, True])),
    (_U(False, [True, True]), _U(False, [False, True]), _U(True, [True, True])),
    (_ES, _U(False, [True, True]), _ES),
    (_U(False, [True, True], dims=(4, 4)), _U(True, [True, True], dims=(4, 4)), _U(False, [True, False], dims=(4, 4))),
    (gdesc("uniform", 0, (3, 2, 3), "F", False, [True, True, True], "POINTS"),
     gdesc("rect", 0, (3, 2, 3), "C", True, [True, False, True], "POINTS"),
     gdesc("uniform", 0, (3, 2, 3), "C", False, [False, True, True], "POINTS")),
    (gdesc("uniform", 0, (4,), "F", False, [True], "CELLS"), gdesc("uniform", 0, (4,), "F", False, [False], "CELLS"),
     gdesc("uniform", 0, (4,), "F", True, [True], "CELLS")),
    (_U(False, [True, True]), _U(True, [True, False]), _U(False, [True, True])),      # axes_reversed differs, non-square
    (_U(False, [True, True]), _U(False, [True, True]), _U(True, [True, False])),      # relay in the source's layout
    (_U(False, [True, True]), _U(False, [True, True], dims=(4, 4)), _U(False, [True, True])),  # conflicting relay grid
]


def _crs(d, c):
    d = dict(d)
    d["crs"] = c
    return d


def generate(rng, tier):
    crng = __import__("random").Random(15)
    cases = [make_case(k, g, h, m, crng) for k, g, h, m in CORPUS_SPEC]
    cases += [make_seq_case(g, h, st, m, n, crng) for g, h, st, m, n in CORPUS_SEQ]
    cases += [make_seq_case(g, h, st, m, n, crng, **kw) for g, h, st, m, n, kw in CORPUS_SEQ_X]
    cases += [make_relay_case(g, m, h, crng) for g, m, h in CORPUS_RELAY]
    # seeded defect C15_m: reference systems that differ only in their axis order are different locations
    for kind in ("methods", "link"):
        for cg, ch in ((1, 2), (2, 1), (3, 4), (1, 1), (2, 2), (1, 3), (0, 2)):
            cases.append(make_case(kind, _crs(_U(False, [True, True]), cg), _crs(_U(False, [True, False]), ch), "data", crng))
            cases.append(make_case(kind, _crs(_U(True, [True, False], "POINTS"), cg), _crs(_U(True, [True, False], "POINTS"), ch),
                                   "time1", crng))
    cases.append({"kind": "gridseq", "masked": False, "mode": "objects",
                  "grids": [_crs(_GC, 1), _crs(_GC, 2), _crs(_ES, 1), _crs(_via(_ES, "to_uniform"), 2)],
                  "ops": [["compat", 0, 1], ["compat", 1, 0], ["eq", 0, 1], ["trans", 0, 1], ["compat", 0, 2], ["compat", 2, 3],
                          ["eq", 2, 3], ["trans", 3, 2], ["compat", 1, 3]]})
    cases += [{"kind": "gridseq", "grids": gs, "ops": ops, "masked": False, "mode": "objects"} for gs, ops in CORPUS_GRIDSEQ]
    for _ in range(600 if tier == "quick" else 6000):
        cases.append(make_gridseq(rng))
    pairs = _pairs((3, 2, 2) if tier == "quick" else (4, 3, 2))
    if tier == "quick":
        # deterministic sample of the product, every (dims, loc, source layout) kept at least once
        keep = [p for i, p in enumerate(pairs) if rng.random() < 0.3]
        pairs = keep
    for dims, loc, (rg, ig), (rh, ih) in pairs:
        for kind in ("methods", "link"):
            cls = rng.choice(["uniform", "uniform", "rect"])
            geom = 0 if cls == "uniform" else rng.choice([0, 1])
            g = gdesc(cls, geom, dims, rng.choice("CF"), rg, ig, loc)
            h = gdesc(rng.choice(["uniform", "rect"]) if geom == 0 else "rect", geom, dims, rng.choice("CF"), rh, ih, loc)
            g, h = vary_spacing(g, rng, 0.4), vary_spacing(h, rng, 0.4)
            g, h = vary_via(g, rng, 0.3), vary_via(h, rng, 0.3)
            g, h = vary_crs(g, h, rng, 0.12)
            cases.append(make_case(kind, g, h, _mode(rng, kind), rng))
            if kind == "link":
                # the same pair again as a script: static link read 2-4 times / several publications read repeatedly
                static = rng.random() < 0.6
                npulls = [rng.randint(2, 4)] if static else [rng.randint(1, 3) for _ in range(rng.randint(2, 3))]
                r = rng.random()
                declare = None if r < 0.5 else "source" if r < 0.65 else "both"
                cases.append(make_seq_case(g, h, static, rng.choice(["data", "time1"]), npulls, rng,
                                           flat=rng.random() < 0.35, declare=declare, push_masked=rng.random() < 0.5))
                if rng.random() < (0.3 if tier == "quick" else 0.6):
                    # the same pair with a relaying component in between whose input declares a third layout
                    rm, im = rng.choice(layouts(len(dims)))
                    cm = rng.choice(["uniform", "rect"]) if geom == 0 else "rect"
                    m = vary_via(gdesc(cm, geom, dims, rng.choice("CF"), rm, im, loc, g["crs"]), rng, 0.3)
                    if rng.random() < 0.06:
                        m["dims"] = [n + 1 for n in m["dims"]]  # conflicting grid: refused at connect
                    cases.append(make_relay_case(g, m, h, rng))
    ncross = 500 if tier == "quick" else 5000
    for i in range(ncross):
        cases.append(_cross(rng, "methods" if i % 2 else "link"))
    return cases


# ---------------------------------------------------------------------------------------------
# implementation driver
# ---------------------------------------------------------------------------------------------
def build(d):
    g = build0(d)
    for v in d.get("via", []):
        g = {"to_rectilinear": lambda: g.to_rectilinear(), "to_uniform": lambda: g.to_uniform(),
             "copy": lambda: g.copy(), "deepcopy": lambda: g.copy(deep=True)}[v]()
    return g


def build0(d):
    c = spec_case(d)
    crs = CRS_VALUES[d["crs"]]
    loc = G._loc(c["loc"])
    if c["cls"] == "uniform":
        return fm.UniformGrid(dims=tuple(c["dims"]), spacing=tuple(float(G._fq(x)) for x in c["spacing"]),
                              origin=tuple(float(G._fq(x)) for x in c["origin"]), data_location=loc, order=c["order"],
                              axes_reversed=c["rev"], axes_increase=c["inc"], crs=crs)
    if c["cls"] == "rect":
        return fm.RectilinearGrid(axes=[np.array([float(G._fq(x)) for x in ax]) for ax in c["axes"]], data_location=loc,
                                  order=c["order"], axes_reversed=c["rev"], crs=crs)
    return fm.EsriGrid(ncols=c["ncols"], nrows=c["nrows"], cellsize=float(G._fq(c["cs"])), xllcorner=float(G._fq(c["xll"])),
                       yllcorner=float(G._fq(c["yll"])), order=c["order"], crs=crs)


def to_array(case):
    vals = case["vals"]
    a = np.array([0.0 if v is None else float(v) for v in vals]).reshape(case["shape"])
    if any(v is None for v in vals):
        a = np.ma.masked_array(a, mask=np.array([v is None for v in vals]).reshape(case["shape"]))
    return a


def arr_obs(x):
    x = getattr(x, "magnitude", x)
    shape = [int(n) for n in np.shape(x)]
    mask = np.ma.getmaskarray(x).reshape(-1)
    data = np.ma.getdata(x).reshape(-1)
    return ["ok", shape, [None if m else int(round(float(v))) for v, m in zip(data, mask)]]


def attempt(f):
    try:
        return arr_obs(f())
    except ValueError:
        return ["err", 1]
    except fm.errors.FinamMetaDataError:
        return ["err", 2]
    except fm.errors.FinamDataError:
        return ["err", 3]


def run_gridseq(case):
    objs = [build(d) for d in case["grids"]]
    res = []
    for op in case["ops"]:
        if any(i >= len(objs) for i in op[1:3] if isinstance(i, int) and not isinstance(i, bool)):
            res.append(["bad"])
            continue
        a = objs[op[1]]
        if op[0] == "compat":
            res.append(["b", bool(a.compatible_with(objs[op[2]]))])
        elif op[0] == "eq":
            res.append(["b", bool(a == objs[op[2]])])
        elif op[0] == "trans":
            try:
                t = a.get_transform_to(objs[op[2]])
                res.append(["t", "none" if t is None else "fun"])
            except ValueError:
                res.append(["t", "err"])
        elif op[0] == "set":
            try:
                a.data_location = G._loc(op[2])
                res.append(["set", True])
            except ValueError:
                res.append(["set", False])
        else:
            objs.append(a.copy(deep=bool(op[2])))
            res.append(["copy"])
    return {"res": res, "bools": []}


def run_relay(case):
    from datetime import datetime, timedelta

    start, step = datetime(2000, 1, 1), timedelta(days=1)
    g, m, h = build(case["g"]), build(case["m"]), build(case["h"])
    sets = [to_array(d) for d in case["sets"]]
    gen = fm.components.CallbackGenerator(
        {"Out": (lambda t: sets[min((t - start).days, len(sets) - 1)], fm.Info(time=None, grid=g))}, start=start, step=step)
    seen = []

    def record(_name, data, t):
        seen.append([(t - start).days, arr_obs(data)])

    cons = fm.components.DebugConsumer({"In": fm.Info(time=None, grid=h)}, start=start, step=step, callbacks={"In": record})
    mod = fm.components.TimeTrigger(start=start, step=step, in_info=fm.Info(time=None, grid=m))
    comp = fm.Composition([gen, mod, cons], log_level="CRITICAL", print_log=False)
    gen.outputs["Out"] >> mod.inputs["In"]
    mod.outputs["Out"] >> cons.inputs["In"]
    try:
        comp.run(start_time=start, end_time=start + case["nsteps"] * step)
    except fm.errors.FinamMetaDataError:
        return {"days": [], "res": [["err", 2]], "bools": [], "seen_before_error": len(seen)}
    except fm.errors.FinamDataError:
        return {"days": [k for k, _ in seen], "res": [r for _, r in seen] + [["err", 3]], "bools": [], "raised": "DataError"}
    except ValueError:
        return {"days": [k for k, _ in seen], "res": [r for _, r in seen] + [["err", 1]], "bools": [], "raised": "ValueError"}
    return {"days": [k for k, _ in seen], "res": [r for _, r in seen], "bools": []}


def run_impl(case):
    if case["kind"] == "gridseq":
        return run_gridseq(case)
    if case["kind"] == "relay":
        return run_relay(case)
    g, h = build(case["g"]), build(case["h"])
    if case["kind"] == "linkseq":
        return run_seq(case, g, h)
    a = to_array(case)
    if case["kind"] == "methods":
        res = [attempt(lambda: g.to_canonical(a)), attempt(lambda: g.from_canonical(a)),
               attempt(lambda: g.from_canonical(g.to_canonical(a))), attempt(lambda: g.to_canonical(g.from_canonical(a)))]
        try:
            tr = g.get_transform_to(h)
            res.append(["none"] if tr is None else attempt(lambda: tr(a)))
        except ValueError:
            res.append(["err", 1])
        bools = [bool(g.compatible_with(h)), bool(h.compatible_with(g)), bool(g == h), bool(h == g)]
        return {"res": res, "bools": bools}
    out = fm.Output(name="Out")
    inp = fm.Input(name="In")
    out >> inp
    inp.ping()
    out.push_info(fm.Info(time=T(0), grid=g))
    try:
        inp.exchange_info(fm.Info(time=T(0), grid=h))
    except fm.errors.FinamMetaDataError:
        return {"res": [["err", 2]], "bools": []}
    except ValueError:
        return {"res": [["err", 1]], "bools": []}
    out.push_data(a, T(0))
    return {"res": [attempt(lambda: inp.pull_data(T(0)))], "bools": []}


def run_seq(case, g, h):
    static = case["static"]
    npull = sum(1 for op in case["ops"] if op[0] == "pull")
    out = fm.Output(name="Out", static=static)
    inp = fm.Input(name="In", static=static)
    out >> inp
    inp.ping()
    t0 = None if static else T(0)
    kw_g, kw_h = {}, {}
    if case.get("declare"):
        mg, mh = mask_arrays(case)
        kw_g["mask"] = mg
        if case["declare"] == "both":
            kw_h["mask"] = mh
    out.push_info(fm.Info(time=t0, grid=g, **kw_g))
    try:
        inp.exchange_info(fm.Info(time=t0, grid=h, **kw_h))
    except fm.errors.FinamMetaDataError:
        return {"res": [["err", 2]] * npull, "bools": []}
    except ValueError:
        return {"res": [["err", 1]] * npull, "bools": []}
    res = []
    tcur = None
    nread = 0
    for op in case["ops"]:
        if op[0] == "push":
            k = op[1]
            tcur = None if static else T(1000 * (k + 1))
            a = to_array(case["sets"][k])
            if not case.get("push_masked", True):
                a = np.ma.getdata(a)  # plain payload: tools.prepare applies the declared mask
            if case.get("flat"):
                # 1-D payload "in the grid's order" (documented: data.reshape(-1, order=grid.order))
                a = a.reshape(-1, order=case["g"]["order"])
            out.push_data(a, tcur)
        else:
            # a static input is asked alternately without and with a time
            t = (None if nread % 2 == 0 else T(77)) if static else tcur
            nread += 1
            res.append(attempt(lambda: inp.pull_data(t)))
    return {"res": res, "bools": []}


# ---------------------------------------------------------------------------------------------
# Gallina emitter
# ---------------------------------------------------------------------------------------------
def VAL(v):
    return NONE if v is None else Some(Z(v))


def model_spec(d):
    """constructor arguments of the directly built grid the object must behave like: a cast / copied grid is the
    grid with the same axes and layout; an EsriGrid that went through a cast is a plain uniform grid"""
    c = spec_case(d)
    if d["cls"] == "esri" and not is_esri(d):
        c = {"cls": "uniform", "dims": d["dims"], "spacing": [c["cs"], c["cs"]], "origin": [c["xll"], c["yll"]],
             "inc": [True, False], "order": c["order"], "rev": True, "loc": c["loc"]}
    return c


def coq_grid(d):
    c = model_spec(d)
    return G.coq_spec(c) + " " + P(B(c["order"] == "C"), B(c["rev"]), B(c["loc"] == "POINTS"), N(d["crs"]))


def _gop(op):
    if op[0] in ("compat", "eq", "trans"):
        return C({"compat": "GCompat", "eq": "GEq", "trans": "GTrans"}[op[0]], N(op[1]), N(op[2]))
    if op[0] == "set":
        return C("GSet", N(op[1]), B(op[2] == "POINTS"))
    return C("GCopy", N(op[1]))


def coq_case(case, obs):
    if case["kind"] == "relay":
        # the data sets in the order in which the consumer saw them (recorded day numbers)
        ds = []
        for k in obs.get("days", []):
            d = case["sets"][min(k, len(case["sets"]) - 1)]
            ds.append(P(G.NL([1] + list(d["shape"])), L(VAL(v) for v in d["vals"])))
        dsl = L(ds) if ds else "(@nil (list nat * list val))"
        return C("CRelay", coq_grid(case["g"]), coq_grid(case["m"]), coq_grid(case["h"]), dsl)
    if case["kind"] == "gridseq":
        grids = []
        for d in case["grids"]:
            c = model_spec(d)
            grids.append(P(G.coq_spec(c), P(B(c["order"] == "C"), B(c["rev"]), B(c["loc"] == "POINTS"), N(d["crs"]))))
        return C("CGridSeq", L(grids), L(_gop(o) for o in case["ops"]))
    if case["kind"] == "linkseq":
        ops = []
        for op in case["ops"]:
            if op[0] == "push":
                d = case["sets"][op[1]]
                if case.get("flat"):
                    # the flat list as pushed; the model places entry n at the data index flattening to n in the grid's order
                    obj = np.empty(len(d["vals"]), dtype=object)
                    obj[:] = d["vals"]
                    fl = obj.reshape(d["shape"]).reshape(-1, order=case["g"]["order"])
                    ops.append(C("SPushFlat", L(VAL(v) for v in fl)))
                else:
                    shape = ([1] if case["mode"] == "data" else []) + list(d["shape"])
                    ops.append(C("SPush", G.NL(shape), L(VAL(v) for v in d["vals"])))
            else:
                ops.append("SPull")
        return C("CLinkSeq", coq_grid(case["g"]), coq_grid(case["h"]), B(case["static"]), L(ops))
    shape = list(case["shape"])
    if case["kind"] == "link" and case["mode"] == "data":
        shape = [1] + shape  # Output.push_data (tools.prepare) adds the time axis
    return C("CMethods" if case["kind"] == "methods" else "CLink", coq_grid(case["g"]), coq_grid(case["h"]),
             G.NL(shape), L(VAL(v) for v in case["vals"]))


def _ares(r):
    if r[0] == "b":
        return C("ACode", N(1 if r[1] else 0))
    if r[0] == "t":
        return C("ACode", N({"err": 10, "none": 11, "fun": 12}[r[1]]))
    if r[0] == "set":
        return C("ACode", N(21 if r[1] else 20))
    if r[0] == "copy":
        return C("ACode", N(30))
    if r[0] == "bad":
        return C("ACode", N(31))
    if r[0] == "ok":
        return C("AOk", G.NL(r[1]), L(VAL(v) for v in r[2]))
    if r[0] == "none":
        return "ANone"
    return C("AErr", N(r[1]))


def coq_obs(case, obs):
    # explicit types: a case file may consist of a single case (replay, shrinking)
    if "harness_error" in obs:
        return P("(@nil ares)", "(@nil bool)")
    bools = L(B(b) for b in obs["bools"]) if obs["bools"] else "(@nil bool)"
    return P(L(_ares(r) for r in obs["res"]), bools)


# ---------------------------------------------------------------------------------------------
# property monitor
# ---------------------------------------------------------------------------------------------
def _expect_located(case, r, d, tn, what, off=0):
    """r must hold, at every data index of grid d, the code of its physical location (mask included)"""
    if r[0] != "ok":
        return f"{what}: got {r}"
    ds = data_shape(d)
    want_shape = ([tn] if tn else []) + ds
    if r[1] != want_shape:
        return f"{what}: shape {r[1]} instead of {want_shape}"
    masked_codes = set()
    src = case["g"]
    k = 0
    for t in range(max(tn, 1)):
        for idx in itertools.product(*[range(n) for n in data_shape(src)]):
            if case["vals"][k] is None:
                masked_codes.add(code(canon_of(src, idx), t) + off)
            k += 1
    k = 0
    for t in range(max(tn, 1)):
        for idx in itertools.product(*[range(n) for n in ds]):
            c = code(canon_of(d, idx), t) + off
            want = None if c in masked_codes else c
            if r[2][k] != want:
                return (f"{what}: element {([t] if tn else []) + list(idx)} located at canonical index {canon_of(d, idx)} "
                        f"holds {r[2][k]} instead of {want}")
            k += 1
    return None


def canon_desc(d):
    return {"dims": d["dims"], "loc": d["loc"], "rev": False, "inc": [True] * len(d["dims"])}


def _monitor_gridseq(case, obs):
    cur = [dict(d) for d in case["grids"]]
    for n, (op, r) in enumerate(zip(case["ops"], obs["res"])):
        if r == ["bad"]:
            continue
        if op[0] in ("compat", "eq", "trans"):
            a, b = cur[op[1]], cur[op[2]]
            compat = same_located_axes(a, b)
            eq = compat and same_layout(a, b)
            want = {"compat": ["b", compat], "eq": ["b", eq], "trans": ["t", "err" if not compat else "none" if eq else "fun"]}[op[0]]
            if r != want:
                return (f"op {n} {op}: answered {r[1]} but the objects currently hold {a['loc']} data on dims {a['dims']} "
                        f"and {b['loc']} data on dims {b['dims']} (same locations: {compat}, same layout: {eq})")
        elif op[0] == "set":
            ok = not (is_esri(cur[op[1]]) and op[2] == "POINTS")
            if r != ["set", ok]:
                return f"op {n} {op}: setter {'accepted' if r[1] else 'rejected'} the location"
            if ok:
                cur[op[1]]["loc"] = op[2]
        else:
            cur.append(dict(cur[op[1]]))
    return None


def _monitor_relay(case, obs):
    g, m, h = case["g"], case["m"], case["h"]
    ok = same_located_axes(g, m) and same_located_axes(m, h)
    res, days = obs["res"], obs["days"]
    if not ok:
        return None if res == [["err", 2]] else f"a relay / consumer with a conflicting grid was connected: {res[-1][:2]}"
    if obs.get("raised") or res == [["err", 2]]:
        return (f"compatible grids source {g['rev'], g['inc']} -> relay {m['rev'], m['inc']} -> consumer {h['rev'], h['inc']}: "
                f"the run stopped with {obs.get('raised', 'FinamMetaDataError')} after {len(days)} delivered data sets")
    if len(days) != case["nsteps"] + 1:
        return f"the consumer saw {len(days)} data sets instead of {case['nsteps'] + 1}"
    for k, r in zip(days, res):
        sub = {"g": g, "vals": case["sets"][min(k, len(case["sets"]) - 1)]["vals"]}
        f = _expect_located(sub, r, h, 1, f"data set of day {k} at the consumer behind the relay", off=k * SEQ_OFF)
        if f:
            return f
    return None


def _monitor(case, obs):
    if case["kind"] == "gridseq":
        return _monitor_gridseq(case, obs)
    if case["kind"] == "relay":
        return _monitor_relay(case, obs)
    g, h, mode = case["g"], case["h"], case["mode"]
    compat = same_located_axes(g, h)
    tn = {"data": 0, "time1": 1, "time2": 2}.get(mode)
    res = obs["res"]
    if case["kind"] == "methods":
        bl = obs["bools"]
        if bl[0] != compat or bl[1] != compat:
            return f"compatible_with = {bl[:2]} but the grids {'do' if compat else 'do not'} describe the same data locations"
        eq = compat and same_layout(g, h)
        if bl[2] != eq or bl[3] != eq:
            return f"== gives {bl[2:]} but equal layout of the same locations is {eq}"
        orig = ["ok", list(case["shape"]), list(case["vals"])]
        if mode == "data":
            f = _expect_located(case, res[0], canon_desc(g), 0, "to_canonical")
            if f:
                return f
            if res[2] != orig:
                return f"from_canonical(to_canonical(a)) != a: {res[2]}"
        if mode == "canon":
            if res[1][0] != "ok" or res[1][1] != data_shape(g):
                return f"from_canonical of canonical data: {res[1][:2]}"
            if res[3] != orig:
                return f"to_canonical(from_canonical(a)) != a: {res[3]}"
        if not compat:
            if res[4] != ["err", 1]:
                return f"get_transform_to of incompatible grids: {res[4][:2]}"
        elif eq:
            if res[4] != ["none"]:
                return f"equal grids need no transformation, got {res[4][:2]}"
        elif tn is not None:
            return _expect_located(case, res[4], h, tn, "transformed data")
        return None
    if case["kind"] == "linkseq":
        k, n = None, 0
        for op in case["ops"]:
            if op[0] == "push":
                k = op[1]
                continue
            r = res[n]
            n += 1
            if not compat:
                if r != ["err", 2]:
                    return f"link between incompatible grids delivered {r[:2]}"
                continue
            sub = {"g": g, "vals": case["sets"][k]["vals"]}
            f = _expect_located(sub, r, h, 1, f"read #{n} of the {'static ' if case['static'] else ''}input "
                                f"(publication {k})", off=k * SEQ_OFF)
            if f:
                return f
        return None
    # link
    if not compat:
        return None if res[0] == ["err", 2] else f"link between incompatible grids delivered {res[0][:2]}"
    return _expect_located(case, res[0], h, 1, "data delivered to the input")


def monitor(case, obs):
    try:
        return _monitor(case, obs)
    except (IndexError, KeyError, TypeError, ValueError) as e:  # observation too inconsistent to evaluate
        return f"public grid properties are mutually inconsistent ({type(e).__name__} while evaluating the predicate)"


def nontrivial(case, obs):
    if case["kind"] == "relay":
        g, m, h = case["g"], case["m"], case["h"]
        return same_located_axes(g, m) and same_located_axes(m, h) and not same_layout(g, m) and int(np.prod(data_shape(g))) >= 2
    if case["kind"] == "gridseq":
        # a comparison of a pair, a successful relocation of one of the two, the same pair compared again
        seen, moved = set(), set()
        for op, r in zip(case["ops"], obs["res"]):
            if op[0] in ("compat", "eq", "trans") and r != ["bad"]:
                p = frozenset(op[1:3])
                if p in seen and (moved & p):
                    return True
                seen.add(p)
            elif op[0] == "set" and r == ["set", True]:
                moved.add(op[1])
        return False
    g, h = case["g"], case["h"]
    return (same_located_axes(g, h) and not same_layout(g, h) and int(np.prod(data_shape(g))) >= 2
            and case["mode"] in ("data", "time1", "time2"))


def distribution(cases, obss):
    from collections import Counter

    return {
        "kind": dict(Counter(c["kind"] for c in cases)),
        "mode": dict(Counter(c["mode"] for c in cases)),
        "masked": dict(Counter(str(c["masked"]) for c in cases)),
        "seq_static": dict(Counter(str(c["static"]) for c in cases if c["kind"] == "linkseq")),
        "seq_flat_push": dict(Counter(str(c.get("flat")) for c in cases if c["kind"] == "linkseq")),
        "seq_declared_mask": dict(Counter(str(c.get("declare")) for c in cases if c["kind"] == "linkseq")),
        "seq_reads": dict(Counter(sum(1 for op in c["ops"] if op[0] == "pull") for c in cases if c["kind"] == "linkseq")),
        "dim": dict(Counter(len(c["g"]["dims"]) for c in cases if "g" in c)),
        "classes": dict(Counter(c["g"]["cls"] + ">" + c["h"]["cls"] for c in cases if "g" in c)),
        "obtained_via": dict(Counter("+".join(d.get("via", [])) or "constructor" for c in cases
                                     for d in ([c["g"], c["h"]] if "g" in c else c["grids"]))),
        "compatible": dict(Counter(str(same_located_axes(c["g"], c["h"])) for c in cases if "g" in c)),
        "crs_pairs": dict(Counter("same" if c["g"]["crs"] == c["h"]["crs"] else "axis-order" if {c["g"]["crs"], c["h"]["crs"]} in ({1, 2}, {3, 4})
                                  else "different" for c in cases if "g" in c and (c["g"]["crs"] or c["h"]["crs"]))),
        "relay_layouts": dict(Counter(("same" if same_layout(c["g"], c["m"]) else "differs") for c in cases if c["kind"] == "relay")),
        "gridseq_ops": dict(Counter(op[0] for c in cases if c["kind"] == "gridseq" for op in c["ops"])),
        "result": dict(Counter(o["res"][-1][0] + (str(o["res"][-1][1]) if o["res"][-1][0] == "err" else "")
                               for o in obss if isinstance(o, dict) and "res" in o)),
    }


def shrink_candidates(case):
    if case["kind"] == "relay":
        if case["masked"]:
            yield make_relay_case(case["g"], case["m"], case["h"], __import__("random").Random(1), masked=False, nsteps=case["nsteps"])
        return
    if case["kind"] == "gridseq":
        ops = case["ops"]
        for i in range(len(ops) - 1, -1, -1):
            if ops[i][0] != "copy":
                c = dict(case)
                c["ops"] = ops[:i] + ops[i + 1:]
                yield c
        return
    if case["kind"] == "linkseq":
        ops = case["ops"]
        for i in range(len(ops) - 1, 0, -1):
            if ops[i][0] == "pull" and sum(1 for o in ops if o[0] == "pull") > 1:
                c = dict(case)
                c["ops"] = ops[:i] + ops[i + 1:]
                yield c
        return
    if case["masked"] and case["mode"] != "wrong":
        yield make_case(case["kind"], case["g"], case["h"], case["mode"], __import__("random").Random(1), masked=False)
