"""C19 — composition validation rejects exactly the unworkable topologies.

Correspondence: link topologies (a forest: outputs / source-less adapters at the roots, adapters as
inner nodes, inputs as leaves) are built with REAL finam objects (harness TimeComponents whose slots
are fm.Input / fm.CallbackInput / fm.Output / fm.CallbackOutput, finam adapters Scale, DelayFixed,
LinearTime, NextTime, DelayToPull, DelayToPush plus four harness Adapter subclasses that switch on
needs_push / needs_pull / both / the NoBranchAdapter marker) and linked with `>>`.  `Composition._validate_composition()` is called directly and
`Composition.connect()` is run; the four module-level check helpers of finam.schedule are wrapped by
recording proxies (classification only: which check ran for which slot, which one raised), the
harness components / slots record every connect call and every info/data exchange.  Observation:
error class, the identity (check, component index, slot index) of the raising check, the event
prefix up to the first component connect call, and - after a successful connect - the link list of
`Composition.metadata` mapped back to slot / adapter indices.  The Coq model FV.Validate is
evaluated on the same forest and must give the same verdict, the same check events and (up to
order) the same links.

Monitor: the five declarative defects computed here from the link list of the case (independent of
finam and of the Coq model) decide accept / reject; plus "no connect / exchange event before a
validation error" and "reported links = created links of the trees that touch the composition".
"""
import itertools
from collections import Counter

from ..coqgen import B, C, L, N, NONE, P, Some
from .. import fin
from ..fin import fm, T, D, err_class

ID = "C19"
COQ_IMPORTS = "From FV Require Import Base Validate."
COQ_CHECK = "c19_check2"
COQ_MODEL_OBS = "c19_model2"
RULE = (
    "exhaustive sweep of a family of small topologies (2 composition components + 1 outsider, chains of 0-3 "
    "adapters over 10 adapter kinds, fan-out at every position, static flags, callback inputs/outputs, missing "
    "sides, dangling adapters; plus a listing-order family: producer-first / consumer-first x fan-out at every "
    "position x dead-end adapter sub-chains of length 1-3 incl. nested ones; both sub-sampled in the quick tier) "
    "+ a two-step family (a first connect() on a partial wiring, then the remaining links - every single link / pair of "
    "links of chains with fan-outs - are added and connect() is called again on the same Composition) "
    "+ random forests (up to 4 roots, depth <= 5, "
    "fan-out <= 3); non-trivial = at least one adapter and (a defect or a fan-out); distinct by canonical case hash"
)
TRUSTED = [
    "recording proxies around finam.schedule._check_input_connected/_check_dead_links/_check_branching/"
    "_check_missing_components (classification of the raising check; no message text is read)",
    "harness components/slots record connect calls and info/data exchange (subclasses of fm.TimeComponent, "
    "fm.Input, fm.CallbackInput, fm.Output, fm.CallbackOutput)",
]
ASSUMPTIONS = [
    "domain: link structures that can be built with `>>` (every input/adapter has at most one source) and are acyclic",
    "slots are identified by (component index, position in the component's inputs/outputs dict)",
    "a chain (for the dead-link defect) is a complete path output -> adapters -> input; a dead-end adapter branch "
    "without a consuming input is not a chain",
    "created links (for the link-list statement) are those of the link trees that contain a slot of a composition component",
    "several connect() attempts: between attempts links are only added (there is no public way to remove one); a second "
    "attempt is made only when the first one was rejected by the validation or succeeded completely",
]
CASE_TIMEOUT = 30

# adapter kinds: name -> (needs_push, needs_pull, no_branch)
ADA_FLAGS = {
    "scale": (False, False, False),
    "delay": (False, False, False),
    "linear": (True, False, True),
    "next": (True, False, True),
    "topull": (False, False, True),
    "topush": (False, False, False),
    "hpush": (True, False, False),
    "hpull": (False, True, False),
    "hnb": (False, False, True),
    "hboth": (True, True, False),
}
ADA_KINDS = list(ADA_FLAGS)


# ----------------------------------------------------------------------------
# harness finam objects
# ----------------------------------------------------------------------------
class _HPush(fm.Adapter):
    """pass-through adapter that asks to be notified (needs_push) but is not a NoBranchAdapter"""

    @property
    def needs_push(self):
        return True

    def _get_data(self, time, target):
        return self.pull_data(time, self)  # push-based adapters pull on their own behalf


class _HPull(fm.Adapter):
    """pass-through adapter that declares needs_pull"""

    @property
    def needs_pull(self):
        return True

    def _get_data(self, time, target):
        return self.pull_data(time, target)


class _HBoth(fm.Adapter):
    """pass-through adapter that declares needs_push and needs_pull"""

    @property
    def needs_push(self):
        return True

    @property
    def needs_pull(self):
        return True

    def _get_data(self, time, target):
        return self.pull_data(time, self)


class _HNb(fm.Adapter, fm.interfaces.NoBranchAdapter):
    """pass-through adapter that is only marked NoBranchAdapter"""

    def _get_data(self, time, target):
        return self.pull_data(time, target)


def _mk_adapter(kind):
    if kind == "scale":
        return fm.adapters.Scale(1.0)
    if kind == "delay":
        return fm.adapters.DelayFixed(D(5))
    if kind == "linear":
        return fm.adapters.LinearTime()
    if kind == "next":
        return fm.adapters.NextTime()
    if kind == "topull":
        return fm.adapters.DelayToPull(steps=1)
    if kind == "topush":
        return fm.adapters.DelayToPush()
    return {"hpush": _HPush, "hpull": _HPull, "hnb": _HNb, "hboth": _HBoth}[kind]()


def _info(static):
    return fm.Info(time=None if static else T(0), grid=fm.NoGrid())


class _HInput(fm.Input):
    def __init__(self, log, **kw):
        super().__init__(**kw)
        self._hlog = log

    def ping(self):
        self._hlog.append(["x", "ping"])
        return super().ping()

    def exchange_info(self, info=None):
        self._hlog.append(["x", "exchange_info"])
        return super().exchange_info(info)

    def pull_data(self, time, target=None):
        self._hlog.append(["x", "pull_data"])
        return super().pull_data(time, target)

    def source_updated(self, time):
        self._hlog.append(["x", "source_updated"])
        return super().source_updated(time)


class _HCbInput(fm.CallbackInput):
    def __init__(self, log, **kw):
        super().__init__(callback=self._cb, **kw)
        self._hlog = log

    def _cb(self, _caller, _time):
        self._hlog.append(["x", "callback_in"])

    def ping(self):
        self._hlog.append(["x", "ping"])
        return super().ping()

    def exchange_info(self, info=None):
        self._hlog.append(["x", "exchange_info"])
        return super().exchange_info(info)


class _HOutput(fm.Output):
    def __init__(self, log, **kw):
        super().__init__(**kw)
        self._hlog = log

    def push_info(self, info):
        if getattr(self, "_hlog", None) is not None:
            self._hlog.append(["x", "push_info"])
        return super().push_info(info)

    def push_data(self, data, time):
        self._hlog.append(["x", "push_data"])
        return super().push_data(data, time)

    def get_info(self, info):
        self._hlog.append(["x", "get_info"])
        return super().get_info(info)

    def get_data(self, time, target):
        self._hlog.append(["x", "get_data"])
        return super().get_data(time, target)

    def pinged(self, source):
        self._hlog.append(["x", "pinged"])
        return super().pinged(source)


class _HCbOutput(fm.CallbackOutput):
    def __init__(self, log, **kw):
        super().__init__(callback=self._cb, **kw)
        self._hlog = log

    def _cb(self, _caller, _time):
        self._hlog.append(["x", "callback_out"])
        return 1.0

    def push_info(self, info):
        if getattr(self, "_hlog", None) is not None:
            self._hlog.append(["x", "push_info"])
        return super().push_info(info)

    def get_info(self, info):
        self._hlog.append(["x", "get_info"])
        return super().get_info(info)

    def pinged(self, source):
        self._hlog.append(["x", "pinged"])
        return super().pinged(source)


class _HComp(fm.TimeComponent):
    def __init__(self, name, spec, log):
        super().__init__()
        self._hname = name
        self._spec = spec
        self._hlog = log
        self.time = T(0)

    @property
    def name(self):
        return self._hname

    def _next_time(self):
        return self.time + D(1000000)

    def _initialize(self):
        pull = []
        for p, s in enumerate(self._spec["ins"]):
            nm = f"I{p}"
            if s[0] == "cb":
                self.inputs.add(io=_HCbInput(self._hlog, name=nm, info=_info(s[1]), static=s[1]))
            else:
                self.inputs.add(io=_HInput(self._hlog, name=nm, info=_info(s[1]), static=s[1]))
                pull.append(nm)
        for p, s in enumerate(self._spec["outs"]):
            nm = f"O{p}"
            if s[0] == "cb":
                self.outputs.add(io=_HCbOutput(self._hlog, name=nm, info=_info(False)))
            else:
                self.outputs.add(io=_HOutput(self._hlog, name=nm, info=_info(s[1]), static=s[1]))
        self.create_connector(pull_data=pull)

    def _connect(self, start_time):
        push = {f"O{p}": 1.0 for p, s in enumerate(self._spec["outs"]) if s[0] != "cb"}
        self.try_connect(start_time, push_data=push)

    def _validate(self):
        pass

    def _update(self):
        pass

    def _finalize(self):
        pass


# ----------------------------------------------------------------------------
# case helpers
# ----------------------------------------------------------------------------
# case = {"comps": [spec...], "outsiders": [spec...], "adapters": [kind...], "links": [[src, dst]...]}
#   spec = {"ins": [[kind, static]...], "outs": [[kind, static]...]}   kind in/out: "plain"/"cb", "push"/"cb"
#   src  = ["o", owner, pos] | ["a", idx]      dst = ["i", owner, pos] | ["a", idx]
#   owner >= 0: index into comps;  owner < 0: outsider number -owner-1
def _spec_of(case, owner):
    return case["comps"][owner] if owner >= 0 else case["outsiders"][-owner - 1]


def _forest(case):
    """links -> (roots, children): children[("a",k)] / children[("o",own,pos)] = targets in creation order;
    roots = sources that are no-one's target, in order of first appearance"""
    children, has_src = {}, set()
    order = []
    for s, d in case["links"]:
        s, d = tuple(s), tuple(d)
        if s not in children:
            children[s] = []
            order.append(s)
        children[s].append(d)
        has_src.add(d)
        if d[0] == "a" and d not in children:
            children[d] = []
            order.append(d)
    roots = [s for s in order if s not in has_src]
    return roots, children


def _paths(case):
    """all root-to-input paths: (root, [adapter idx...], (owner, pos))"""
    roots, ch = _forest(case)
    res = []

    def walk(node, adas, root):
        for d in ch.get(node, []):
            if d[0] == "i":
                res.append((root, list(adas), (d[1], d[2])))
            else:
                walk(d, adas + [d[1]], root)

    for r in roots:
        if r[0] == "o":
            walk(r, [], r)
        else:
            walk(r, [r[1]], None)
    return res


def defects(case):
    """the five declarative defects, from the link list only"""
    found = set()
    paths = _paths(case)
    linked = {}
    for root, adas, leaf in paths:
        linked[leaf] = root
    # 1. unconnected input of a composition component (no path from an output ends in it)
    for c, spec in enumerate(case["comps"]):
        for p in range(len(spec["ins"])):
            if linked.get((c, p)) is None:
                found.add("unconnected")
    for root, adas, (own, pos) in paths:
        if root is None:
            continue
        ispec = _spec_of(case, own)["ins"][pos]
        ospec = _spec_of(case, root[1])["outs"][root[2]]
        o_static = ospec[1] and ospec[0] != "cb"
        # 2. static input of the composition fed by a non-static output
        if own >= 0 and ispec[1] and not o_static:
            found.add("static")
        # 3. linked component missing from the composition (either side)
        if (own >= 0) != (root[1] >= 0):
            found.add("missing")
        # 5. pull-only element followed downstream by an element that needs pushes
        if own >= 0:
            flags = [(ospec[0] != "cb", ospec[0] == "cb")]
            flags += [ADA_FLAGS[case["adapters"][a]][:2] for a in adas]
            flags += [(ispec[0] == "cb", ispec[0] != "cb")]
            for j in range(len(flags)):
                if flags[j][1] and any(f[0] for f in flags[j + 1:]):
                    found.add("dead")
    # 4. fan-out at or downstream of a no-branch adapter, below an output of the composition
    roots, ch = _forest(case)

    def walk(node, nb):
        if node[0] == "a":
            nb = nb or ADA_FLAGS[case["adapters"][node[1]]][2]
            if nb and len(ch.get(node, [])) > 1:
                found.add("branch")
        for d in ch.get(node, []):
            if d[0] == "a":
                walk(d, nb)

    for r in roots:
        if r[0] == "o" and r[1] >= 0:
            walk(r, False)
    return sorted(found)


def has_dead_end(case):
    """an adapter that was given a source or a target but has no target (a dead-end branch)"""
    _, ch = _forest(case)
    return any(n[0] == "a" and not v for n, v in ch.items())


def created_links(case):
    """canonical links of the trees that contain a slot of a composition component"""
    roots, ch = _forest(case)
    res = []
    for r in roots:
        links, touches = [], (r[0] == "o" and r[1] >= 0)
        todo = [r]
        while todo:
            n = todo.pop()
            for d in ch.get(n, []):
                links.append([list(n), list(d)])
                if d[0] == "a":
                    todo.append(d)
                elif d[1] >= 0:
                    touches = True
        if touches:
            res += links
    return sorted(res)


# ----------------------------------------------------------------------------
# implementation driver
# ----------------------------------------------------------------------------
_CHECKS = ["_check_input_connected", "_check_dead_links", "_check_branching", "_check_missing_components"]


def run_impl(case):
    import finam.schedule as sched

    log = []
    comps = [_HComp(f"C{c}", s, log) for c, s in enumerate(case["comps"])]
    outs = [_HComp(f"X{k}", s, log) for k, s in enumerate(case["outsiders"])]
    for x in outs:
        x.initialize()
    compo = fm.Composition(comps, print_log=False, log_level="ERROR")
    adas = [_mk_adapter(k) for k in case["adapters"]]

    def slot(ref):
        if ref[0] == "a":
            return adas[ref[1]]
        comp = comps[ref[1]] if ref[1] >= 0 else outs[-ref[1] - 1]
        return (comp.outputs if ref[0] == "o" else comp.inputs)[("O" if ref[0] == "o" else "I") + str(ref[2])]

    for s, d in case["links"]:
        slot(s) >> slot(d)
    del log[:]  # push_info of the slot constructors

    comp_idx = {id(c): i for i, c in enumerate(comps)}
    slot_idx = {}
    for c in comps:
        for p, inp in enumerate(c.inputs.values()):
            slot_idx[id(inp)] = p
        for p, out in enumerate(c.outputs.values()):
            slot_idx[id(out)] = p

    real = {n: getattr(sched, n) for n in _CHECKS}

    def proxy(k, name):
        def f(*a):
            if k < 3:
                ev = ["check", k, comp_idx.get(id(a[0]), 4999), slot_idx.get(id(a[1]), 4999)]
            else:
                ev = ["check", k, 0, 0]
            log.append(ev)
            try:
                return real[name](*a)
            except BaseException:
                log.append(["raised"])
                raise
        return f

    for c in comps:
        def mk(c, orig):
            def connect(t):
                log.append(["connect", comp_idx[id(c)]])
                return orig(t)
            return connect
        c.connect = mk(c, c.connect)

    names = {}
    for c, comp in enumerate(comps):
        names[f"{comp.name}@{id(comp)}"] = c
    for k, x in enumerate(outs):
        names[f"{x.name}@{id(x)}"] = -k - 1
    anames = {f"{a.name}@{id(a)}": k for k, a in enumerate(adas)}

    def attempt():
        obs = {}
        del log[:]
        # (a) the validation method alone
        try:
            compo._validate_composition()
            obs["validate"] = "ok"
        except Exception as e:  # noqa
            obs["validate"] = err_class(e)
        obs["validate_events"] = list(log)
        del log[:]
        # (b) the public entry point
        try:
            compo.connect(T(0))
            obs["connect"] = "ok"
        except Exception as e:  # noqa
            obs["connect"] = err_class(e)
        obs["connect_events"] = list(log)
        obs["links"] = None
        if obs["connect"] == "ok":
            links = []
            try:
                reported = compo.metadata["links"]
            except Exception as e:  # noqa
                obs["metadata_error"] = err_class(e)
                return obs
            for l in reported:
                fr, to = l["from"], l["to"]
                s = ["a", anames[fr["adapter"]]] if "adapter" in fr else ["o", names[fr["component"]], int(fr["output"][1:])]
                d = ["a", anames[to["adapter"]]] if "adapter" in to else ["i", names[to["component"]], int(to["input"][1:])]
                links.append([s, d])
            obs["links"] = sorted(links)
        return obs

    try:
        for k, n in enumerate(_CHECKS):
            setattr(sched, n, proxy(k, n))
        obs = attempt()
        # a second attempt on the same Composition object after the wiring was extended: only when the first one
        # was rejected by the validation (nothing has happened to the components) or succeeded completely
        if case.get("late_links") and (["raised"] in obs["connect_events"] or obs["connect"] == "ok"):
            for s, d in case["late_links"]:
                slot(s) >> slot(d)
            obs["retry"] = attempt()
    finally:
        for n in _CHECKS:
            setattr(sched, n, real[n])
    return obs


def _verdict(events):
    """(raised?, check id, comp, slot) from a list of events: the check that raised is the last check event"""
    if ["raised"] in events:
        i = events.index(["raised"])
        ev = events[i - 1]
        return ev[1:]
    return None


def _prefix(events):
    """event prefix up to and including the first component connect call"""
    res = []
    for ev in events:
        res.append(ev)
        if ev[0] == "connect":
            break
    return res


# ----------------------------------------------------------------------------
# Gallina emitter
# ----------------------------------------------------------------------------
def _own(o):
    return Some(N(o)) if o >= 0 else NONE


def _coq_tree(case, ch, node):
    if node[0] == "i":
        s = _spec_of(case, node[1])["ins"][node[2]]
        return C("Leaf", C("mkI", _own(node[1]), N(node[2]), B(s[1]), B(s[0] == "cb"), B(s[0] != "cb")))
    f = ADA_FLAGS[case["adapters"][node[1]]]
    return C("Node", C("mkA", N(node[1]), B(f[0]), B(f[1]), B(f[2])), L(_coq_tree(case, ch, d) for d in ch.get(node, [])))


def _full(case):
    """the wiring after the late links were added"""
    c = {k: v for k, v in case.items() if k != "late_links"}
    c["links"] = list(case["links"]) + list(case.get("late_links") or [])
    return c


def coq_case(case, obs):
    t2 = Some(_coq_topo(_full(case))) if case.get("late_links") else "(@None topo)"
    return P(_coq_topo(case), t2)


def _coq_topo(case):
    roots, ch = _forest(case)
    sizes = L(P(N(len(s["ins"])), N(len(s["outs"]))) for s in case["comps"])
    rts = []
    for r in roots:
        if r[0] == "o":
            s = _spec_of(case, r[1])["outs"][r[2]]
            o = C("mkO", _own(r[1]), N(r[2]), B(s[1] and s[0] != "cb"), B(s[0] != "cb"), B(s[0] == "cb"))
            rts.append(P(Some(o), L(_coq_tree(case, ch, d) for d in ch[r])))
        else:
            rts.append(P(NONE, L([_coq_tree(case, ch, r)])))
    return C("mkT", sizes, L(rts))


def _coq_events(events):
    res = []
    for ev in events:
        if ev[0] == "check":
            res.append(C("EvCheck", ["CkInput", "CkDead", "CkBranch", "CkMissing"][ev[1]], N(ev[2]), N(ev[3])))
        elif ev[0] == "raised":
            res.append("EvRaise")
        elif ev[0] == "connect":
            res.append(C("EvConnect", N(ev[1])))
        else:
            res.append("EvExchange")
    return L(res)


def _coq_link(l):
    s, d = l
    a = C("NAda", N(s[1])) if s[0] == "a" else C("NOut", _own(s[1]), N(s[2]))
    b = C("NAda", N(d[1])) if d[0] == "a" else C("NIn", _own(d[1]), N(d[2]))
    return P(a, b)


def coq_obs(case, obs):
    r = obs.get("retry")
    return P(_coq_obs1(obs), "(@None c19_obs)" if r is None else Some(_coq_obs1(r)))


def _coq_obs1(obs):
    cls = {"ok": "RDone", "ConnectError": "(RRaised ConnectError)", "StatusError": "(RRaised StatusError)"}
    v = cls.get(obs["validate"], "(RRaised OtherError)")
    # errors raised after the validation (later in connect) are outside the model: reported as RDone + no links
    after = obs["connect"] != "ok" and ["raised"] not in obs["connect_events"]
    if obs["connect"] == "StatusError" and not obs["connect_events"]:
        after = False  # "Composition was already connected": raised before anything else
    c = "RDone" if after else cls.get(obs["connect"], "(RRaised OtherError)")
    links = NONE if obs["links"] is None else Some(L(_coq_link(l) for l in obs["links"]))
    return C("mkObs", v, _coq_events(obs["validate_events"]), c, _coq_events(_prefix(obs["connect_events"])), links)


# ----------------------------------------------------------------------------
# monitor
# ----------------------------------------------------------------------------
def monitor(case, obs):
    f = _monitor1(case, obs)
    if f or "retry" not in obs:
        return f
    r = obs["retry"]
    if obs["connect"] == "ok":
        if r["connect"] != "StatusError" or r["connect_events"]:
            return f"connect() of an already connected composition: {r['connect']} after events {r['connect_events'][:3]}"
        return None
    f = _monitor1(_full(case), r)
    return ("second connect() after a rejected attempt and an extended wiring: " + f) if f else None


def _monitor1(case, obs):
    d = defects(case)
    v_err = obs["validate"] != "ok"
    raised_in_validation = ["raised"] in obs["connect_events"]
    if d and not v_err:
        return f"topology with defects {d} passes _validate_composition"
    if not d and v_err:
        return f"defect-free topology rejected by _validate_composition with {obs['validate']}"
    if v_err and obs["validate"] != "ConnectError":
        return f"validation raised {obs['validate']}, not a connect error"
    if d:
        if obs["connect"] != "ConnectError" or not raised_in_validation:
            return f"connect() of a topology with defects {d}: result {obs['connect']}, raised by a validation check: {raised_in_validation}"
        bad = [ev for ev in obs["connect_events"] if ev[0] in ("connect", "x")]
        if bad:
            return f"connect/exchange events before the validation error: {bad[:3]}"
    else:
        if raised_in_validation:
            return f"connect() of a defect-free topology raised {obs['connect']} inside a validation check"
        evs = obs["connect_events"]
        last_check = max([i for i, ev in enumerate(evs) if ev[0] == "check"], default=-1)
        first_other = min([i for i, ev in enumerate(evs) if ev[0] in ("connect", "x")], default=len(evs))
        if first_other < last_check:
            return "a component connect / exchange event precedes a validation check"
        if not any(ev[0] == "check" for ev in evs):
            return "connect() ran no validation check"
        if obs.get("metadata_error"):
            return f"Composition.metadata raised {obs['metadata_error']} after a successful connect"
        if obs["links"] is not None and obs["links"] != created_links(case):
            return f"reported links differ from the created links: reported {obs['links']}, created {created_links(case)}"
    return None


def nontrivial(case, obs):
    if not case["adapters"]:
        return False
    case = _full(case)
    _, ch = _forest(case)
    fan = any(len(v) > 1 for v in ch.values())
    return bool(defects(case)) or fan


# ----------------------------------------------------------------------------
# generators
# ----------------------------------------------------------------------------
def _chain_case(ins_kind, in_static, out_kind, out_static, chain, fan_pos, in_owner, out_owner, extra_kind="scale"):
    """one output, a chain of adapters, one input; optional fan-out at position fan_pos
    (0 = at the output, k = at the k-th adapter): an extra branch `extra adapter >> second input`."""
    comps = [{"ins": [], "outs": [[out_kind, out_static]]}, {"ins": [[ins_kind, in_static]], "outs": []}]
    outsiders = [{"ins": [["plain", False]], "outs": [["push", False]]}]
    src_owner, dst_owner = 0, 1
    if out_owner == "outsider":
        outsiders[0]["outs"] = [[out_kind, out_static]]
        comps[0]["outs"] = []
        src_owner = -1
    if in_owner == "outsider":
        outsiders[0]["ins"] = [[ins_kind, in_static]]
        comps[1]["ins"] = []
        dst_owner = -1
    adapters = list(chain)
    links = []
    prev = ["o", src_owner, 0]
    nodes = [prev]
    for k in range(len(chain)):
        links.append([prev, ["a", k]])
        prev = ["a", k]
        nodes.append(prev)
    links.append([prev, ["i", dst_owner, 0]])
    if fan_pos is not None:
        # second consumer: a plain non-static input of component 1 behind one extra adapter
        comps[1]["ins"].append(["plain", False])
        k = len(adapters)
        adapters.append(extra_kind)
        links.append([nodes[fan_pos], ["a", k]])
        links.append([["a", k], ["i", 1, len(comps[1]["ins"]) - 1]])
    return {"comps": comps, "outsiders": outsiders, "adapters": adapters, "links": links}


def _sweep():
    """the exhaustive family (about 60k cases)"""
    for n in range(0, 4):
        for chain in itertools.product(ADA_KINDS, repeat=n):
            for ik, ist, ok_, ost in itertools.product(["plain", "cb"], [False, True], ["push", "cb"], [False, True]):
                if ok_ == "cb" and ost:
                    continue
                for fan in [None] + list(range(n + 1)):
                    for io, oo in [("comp", "comp"), ("outsider", "comp"), ("comp", "outsider")]:
                        if (io, oo) != ("comp", "comp") and (fan not in (None, 0) or n > 2):
                            continue
                        yield _chain_case(ik, ist, ok_, ost, chain, fan, io, oo)


def _swap01(case):
    """the same wiring with components 0 and 1 listed in the other order (consumer first)"""
    import copy

    c = copy.deepcopy(case)
    c["comps"][0], c["comps"][1] = c["comps"][1], c["comps"][0]
    if "late_links" in c:
        c["late_links"] = [[list(a), list(b)] for a, b in c["late_links"]]

    def sw(e):
        e = list(e)  # fresh list: the endpoints of several links may be one shared object
        if e[0] in ("o", "i") and e[1] in (0, 1):
            e[1] = 1 - e[1]
        return e

    c["links"] = [[sw(a), sw(b)] for a, b in c["links"]]
    if "late_links" in c:
        c["late_links"] = [[sw(a), sw(b)] for a, b in c["late_links"]]
    return c


def _with_dead_tail(case, pos, tail):
    """attach a chain of adapters that ends in nothing below node `pos` of the main chain
    (0 = the output, k = the k-th adapter of the main chain)"""
    import copy

    c = copy.deepcopy(case)
    src = c["links"][0][0] if pos == 0 else ["a", pos - 1]
    for kind in tail:
        c["adapters"].append(kind)
        a = ["a", len(c["adapters"]) - 1]
        c["links"].append([src, a])
        src = a
    return c


_TAIL_KINDS = ["scale", "delay", "hnb", "linear"]


def _dead_end_sweep():
    """listing order x fan-out at every position of a chain of 1-2 adapters x dead-end sub-chains of
    length 1-3 (also a second, nested dead end), for valid and invalid main chains (about 15k cases)"""
    for n in (1, 2):
        for chain in itertools.product(ADA_KINDS if n == 1 else ["scale", "linear", "hpull", "hnb"], repeat=n):
            for ik, ok_ in (("plain", "push"), ("cb", "push"), ("plain", "cb")):
                base = _chain_case(ik, False, ok_, False, chain, None, "comp", "comp")
                for pos in range(n + 1):
                    for tl in (1, 2, 3):
                        for tail in itertools.product(_TAIL_KINDS, repeat=tl):
                            if tl == 3 and tail[0] != "scale":
                                continue
                            c = _with_dead_tail(base, pos, tail)
                            yield c
                            yield _swap01(c)
                            if tl == 2 and n == 1:
                                # nested: a further dead end below the first adapter of the tail
                                c2 = _with_dead_tail(c, 0, [])
                                c2["adapters"].append("scale")
                                c2["links"].append([["a", n], ["a", len(c2["adapters"]) - 1]])
                                yield _swap01(c2)


def _rand_case(rng, deep):
    ncomp = rng.choice([1, 2, 2, 3])
    comps = [{"ins": [], "outs": []} for _ in range(ncomp)]
    outsiders = [{"ins": [], "outs": []}]
    adapters, links = [], []
    p_out = rng.choice([0.0, 0.0, 0.05, 0.15])

    def owner():
        return -1 if rng.random() < p_out else rng.randrange(ncomp)

    def new_input():
        o = owner()
        spec = _spec_of({"comps": comps, "outsiders": outsiders}, o)
        st = rng.random() < 0.25
        spec["ins"].append([rng.choice(["plain", "plain", "cb"]), st])
        return ["i", o, len(spec["ins"]) - 1]

    kinds_w = rng.choice([ADA_KINDS, ["scale", "delay", "topush", "hpush"], ["scale", "delay", "linear", "topull", "hnb"],
                          ["scale", "hpull", "hpush", "next"], ["scale", "hboth", "hpull", "delay"]])
    maxd = rng.choice([2, 3, 5] if deep else [1, 2, 3])
    p_fan = rng.choice([0.0, 0.15, 0.35])
    p_dead = rng.choice([0.0, 0.0, 0.1, 0.3])

    def grow(src, depth):
        nch = 1
        if rng.random() < p_fan:
            nch = rng.choice([2, 2, 3])
        if src[0] == "a" and rng.random() < 0.04:
            nch = 0  # dead-end adapter
        for _ in range(nch):
            if nch > 1 and rng.random() < p_dead:
                # a branch that ends in nothing: 1-3 adapters, possibly forking once more
                cur = src
                for _k in range(rng.choice([1, 2, 2, 3])):
                    adapters.append(rng.choice(["scale", "delay", "hnb", "topull"] if rng.random() < 0.8 else kinds_w))
                    a = ["a", len(adapters) - 1]
                    links.append([cur, a])
                    if rng.random() < 0.2:
                        adapters.append("scale")
                        links.append([a, ["a", len(adapters) - 1]])
                    cur = a
                continue
            if depth < maxd and rng.random() < 0.6:
                adapters.append(rng.choice(kinds_w))
                a = ["a", len(adapters) - 1]
                links.append([src, a])
                grow(a, depth + 1)
            else:
                links.append([src, new_input()])

    nroots = rng.choice([1, 1, 2, 2, 3, 4])
    for _ in range(nroots):
        r = rng.random()
        if r < 0.06:
            adapters.append(rng.choice(kinds_w))  # dangling adapter tree
            grow(["a", len(adapters) - 1], 1)
        else:
            o = owner()
            spec = _spec_of({"comps": comps, "outsiders": outsiders}, o)
            kind = rng.choice(["push", "push", "cb"])
            st = kind == "push" and rng.random() < 0.3
            spec["outs"].append([kind, st])
            grow(["o", o, len(spec["outs"]) - 1], 0)
    # unconnected inputs / unused outputs
    if rng.random() < 0.08:
        comps[rng.randrange(ncomp)]["ins"].append(["plain", False])
    if rng.random() < 0.15:
        comps[rng.randrange(ncomp)]["outs"].append(["push", False])
    # static inputs are mostly fed by static outputs in valid cases: repair some
    case = {"comps": comps, "outsiders": outsiders, "adapters": adapters, "links": links}
    if rng.random() < 0.6:
        for root, _adas, (own, pos) in _paths(case):
            ispec = _spec_of(case, own)["ins"][pos]
            if root is not None and ispec[1]:
                ospec = _spec_of(case, root[1])["outs"][root[2]]
                if not (ospec[1] and ospec[0] != "cb"):
                    ispec[1] = False
    return case


def _defer(case, idxs):
    """the same wiring built in two steps: the links at positions idxs are added only after a first connect()"""
    import copy

    c = copy.deepcopy(case)
    idxs = sorted(set(idxs))
    c["late_links"] = [c["links"][i] for i in idxs]
    c["links"] = [l for i, l in enumerate(c["links"]) if i not in idxs]
    return c


_RETRY_KINDS = ["scale", "delay", "linear", "hnb", "hpush"]


def _retry_sweep():
    """two-step family: chains of 1-2 adapters, fan-out at every position, both listing orders, plain / callback
    consumer; every single link and every pair of links is added only after a first connect() (about 3k cases)"""
    for n in (1, 2):
        for chain in itertools.product(_RETRY_KINDS, repeat=n):
            for ik in ("plain", "cb"):
                for fan in [None] + list(range(n + 1)):
                    base = _chain_case(ik, False, "push", False, chain, fan, "comp", "comp")
                    nl = len(base["links"])
                    sets = [[i] for i in range(nl)] + [[i, j] for i in range(nl) for j in range(i + 1, nl)]
                    for k, idxs in enumerate(sets):
                        c = _defer(base, idxs)
                        yield c if k % 2 == 0 else _swap01(c)
                        if n == 1:
                            yield _swap01(c) if k % 2 == 0 else c


def _rand_retry_case(rng, deep):
    """a random mostly valid wiring, 1-3 of its links added after the first connect()"""
    for _ in range(20):
        c = _rand_case(rng, deep)
        if c["links"] and c["adapters"] and (not defects(c) or rng.random() < 0.15):
            break
    k = min(len(c["links"]), rng.choice([1, 1, 2, 3]))
    return _defer(c, rng.sample(range(len(c["links"])), k))


def _c(comps, outsiders, adapters, links):
    return {"comps": comps, "outsiders": outsiders, "adapters": adapters, "links": links}


_X = [{"ins": [["plain", False]], "outs": [["push", False]]}]
CORPUS = [
    # plain valid link
    _chain_case("plain", False, "push", False, ["scale"], None, "comp", "comp"),
    # tests/core/test_schedule.py: branching below a no-branch adapter
    _c([{"ins": [["plain", False], ["plain", False]], "outs": [["push", False]]}], _X, ["hnb", "scale", "scale", "scale"],
       [[["o", 0, 0], ["a", 0]], [["a", 0], ["a", 1]], [["a", 1], ["a", 2]], [["a", 1], ["a", 3]],
        [["a", 2], ["i", 0, 0]], [["a", 3], ["i", 0, 1]]]),
    # dead links: callback output -> callback input; callback output -> NextTime -> input
    _chain_case("cb", False, "cb", False, [], None, "comp", "comp"),
    _chain_case("plain", False, "cb", False, ["next"], None, "comp", "comp"),
    _chain_case("cb", False, "push", False, ["next"], None, "comp", "comp"),
    # unconnected input
    _c([{"ins": [["plain", False]], "outs": []}], _X, [], []),
    # input behind a source-less adapter
    _c([{"ins": [["plain", False]], "outs": []}], _X, ["scale"], [[["a", 0], ["i", 0, 0]]]),
    # missing component upstream / downstream
    _chain_case("plain", False, "push", False, ["scale", "scale"], None, "comp", "outsider"),
    _chain_case("plain", False, "push", False, ["scale", "scale"], None, "outsider", "comp"),
    # static input behind a non-static output (through an adapter), and the allowed reverse
    _chain_case("plain", True, "push", False, ["scale"], None, "comp", "comp"),
    _chain_case("plain", False, "push", True, ["scale"], None, "comp", "comp"),
    _chain_case("plain", True, "push", True, [], None, "comp", "comp"),
    # fan-out directly at the output above a no-branch adapter is fine; below it is not
    _chain_case("plain", False, "push", False, ["linear"], 0, "comp", "comp"),
    _chain_case("plain", False, "push", False, ["linear"], 1, "comp", "comp"),
    _chain_case("plain", False, "push", False, ["topull", "scale", "scale"], 3, "comp", "comp"),
    # needs_pull adapter followed by a push-based one
    _chain_case("plain", False, "push", False, ["hpull", "scale", "hpush"], None, "comp", "comp"),
    _chain_case("plain", False, "push", False, ["hpush", "hpull"], None, "comp", "comp"),
    # finding F15 (fixed, a09b94c): a dead-end adapter (source but no target) made Composition.metadata raise
    _c([{"ins": [], "outs": [["push", False]]}, {"ins": [["plain", False]], "outs": []}], _X, ["scale"],
       [[["o", 0, 0], ["i", 1, 0]], [["o", 0, 0], ["a", 0]]]),
    _c([{"ins": [], "outs": [["push", False]]}, {"ins": [["plain", False]], "outs": []}], _X, ["scale", "hnb", "delay"],
       [[["o", 0, 0], ["a", 0]], [["a", 0], ["i", 1, 0]], [["a", 0], ["a", 1]], [["a", 1], ["a", 2]]]),
    # seeded mutant C19_b: the consumer is listed before the producer, a pass-through adapter on its chain fans
    # out into a dead-end chain of two adapters (gen.Out >> A >> cons.In; A >> D >> E; Composition([cons, gen]))
    _c([{"ins": [["plain", False]], "outs": []}, {"ins": [], "outs": [["push", False]]}], _X, ["scale", "scale", "scale"],
       [[["o", 1, 0], ["a", 0]], [["a", 0], ["i", 0, 0]], [["a", 0], ["a", 1]], [["a", 1], ["a", 2]]]),
    # ... and with a nested dead end below D
    _c([{"ins": [["plain", False]], "outs": []}, {"ins": [], "outs": [["push", False]]}], _X,
       ["scale", "delay", "scale", "hnb", "scale"],
       [[["o", 1, 0], ["a", 0]], [["a", 0], ["a", 1]], [["a", 1], ["a", 2]], [["a", 1], ["a", 3]], [["a", 3], ["a", 4]],
        [["a", 0], ["i", 0, 0]]]),
    # seeded change C19_m: a connect() rejected for an unlinked input, then the input is linked through adapters and
    # connect() is called again on the same Composition (gen.O0 >> cons.I0 first; later gen.O0 >> Scale >> cons.I1)
    {**_c([{"ins": [], "outs": [["push", False]]}, {"ins": [["plain", False], ["plain", False]], "outs": []}], _X, ["scale"],
          [[["o", 0, 0], ["i", 1, 0]]]),
     "late_links": [[["o", 0, 0], ["a", 0]], [["a", 0], ["i", 1, 1]]]},
    # ... first attempt already knows an adapter; the repair hangs Scale >> Scale below it
    {**_c([{"ins": [], "outs": [["push", False]]}, {"ins": [["plain", False], ["plain", False]], "outs": []}], _X,
          ["scale", "scale", "scale"], [[["o", 0, 0], ["a", 0]], [["a", 0], ["i", 1, 0]]]),
     "late_links": [[["a", 0], ["a", 1]], [["a", 1], ["a", 2]], [["a", 2], ["i", 1, 1]]]},
    # ... the adapter chain exists before the first attempt (source-less), only the link to the output comes late
    {**_c([{"ins": [["plain", False]], "outs": []}, {"ins": [], "outs": [["push", False]]}], _X, ["delay", "hnb"],
          [[["a", 0], ["a", 1]], [["a", 1], ["i", 0, 0]]]),
     "late_links": [[["o", 1, 0], ["a", 0]]]},
    # a second connect() after a successful one (late link: a dead-end adapter) is refused with a status error
    {**_c([{"ins": [], "outs": [["push", False]]}, {"ins": [["plain", False]], "outs": []}], _X, ["scale"],
          [[["o", 0, 0], ["i", 1, 0]]]),
     "late_links": [[["o", 0, 0], ["a", 0]]]},
    # a link between outsiders only is invisible to the composition
    _c([{"ins": [], "outs": [["push", False]]}], [{"ins": [["plain", False]], "outs": [["push", False]]}], ["scale"],
       [[["o", -1, 0], ["a", 0]], [["a", 0], ["i", -1, 0]]]),
]


def generate(rng, tier):
    cases = list(CORPUS)
    sweep = list(_sweep())
    if tier == "quick":
        small = [c for c in sweep if len(c["adapters"]) <= 2]
        big = [c for c in sweep if len(c["adapters"]) > 2]
        cases += small if len(small) <= 2500 else rng.sample(small, 2500)
        cases += rng.sample(big, 1500)
        cases += rng.sample(list(_dead_end_sweep()), 1500)
        cases += rng.sample(list(_retry_sweep()), 700)
        nrand, nretry = 2000, 300
    else:
        cases += sweep
        cases += list(_dead_end_sweep())
        cases += list(_retry_sweep())
        nrand, nretry = 40000, 6000
    for i in range(nretry):
        cases.append(_rand_retry_case(rng, deep=(i % 3 == 0)))
    for i in range(nrand):
        # mostly valid: two thirds of the random cases get up to three re-draws when they contain a defect
        deep = tier != "quick" or i % 4 == 0
        c = _rand_case(rng, deep)
        if i % 3 != 0:
            for _ in range(3):
                if not defects(c):
                    break
                c = _rand_case(rng, deep)
        cases.append(c)
    return cases


def distribution(cases, obss):
    kinds = Counter(k for c in cases for k in c["adapters"])
    nada = Counter(min(len(c["adapters"]), 8) for c in cases)
    dfx = Counter(",".join(defects(c)) or "none" for c in cases)
    res = Counter((o.get("validate"), o.get("connect")) for o in obss if isinstance(o, dict))
    raising = Counter()
    for o in obss:
        if isinstance(o, dict) and "validate_events" in o:
            v = _verdict(o["validate_events"])
            raising[_CHECKS[v[0]] if v else "none"] += 1
    return {"adapter_kinds": dict(kinds), "adapters_per_case": {str(k): v for k, v in sorted(nada.items())},
            "defect_sets": dict(dfx), "validate_connect_results": {f"{a}/{b}": n for (a, b), n in res.items()},
            "raising_check": dict(raising),
            "links_observed": sum(1 for o in obss if isinstance(o, dict) and o.get("links") is not None),
            "cases_with_dead_end_adapter": sum(1 for c in cases if has_dead_end(c)),
            "metadata_errors": sum(1 for o in obss if isinstance(o, dict) and o.get("metadata_error")),
            "two_step_cases": sum(1 for c in cases if c.get("late_links")),
            "second_attempt_results": dict(Counter(
                f"{o['connect']} -> {o['retry']['connect']}" + (" (links observed)" if o["retry"].get("links") is not None else "")
                for o in obss if isinstance(o, dict) and "retry" in o))}


def extra_evidence(cases, obss):
    return {"exhaustive_family_size": sum(1 for _ in _sweep()),
            "dead_end_family_size": sum(1 for _ in _dead_end_sweep()),
            "two_step_family_size": sum(1 for _ in _retry_sweep()),
            "exhaustive_family_note": "thorough tier runs the whole family; the quick tier a seeded sample of it",
            "post_validation_connect_errors": "topologies that pass the validation but fail later in connect (static outputs "
                                              "behind time/delay adapters, dead-end time adapters) are compared on the "
                                              "validation only; the rest of connect is outside this model"}


def shrink_candidates(case):
    late = case.get("late_links") or []
    for i in range(len(late) - 1, -1, -1):
        # drop a late link / make it an early one
        yield {**case, "late_links": late[:i] + late[i + 1:]}
        if len(late) > 1:
            yield {**case, "links": case["links"] + [late[i]], "late_links": late[:i] + late[i + 1:]}
    links = case["links"]
    # drop a leaf link (a link whose destination is an input or a childless adapter)
    srcs = {tuple(s) for s, _ in links}
    for i in range(len(links) - 1, -1, -1):
        d = tuple(links[i][1])
        if d[0] == "i" or d not in srcs:
            yield {**case, "links": links[:i] + links[i + 1:]}
    # splice out an adapter with exactly one child
    for k in range(len(case["adapters"])):
        ins = [i for i, (s, d) in enumerate(links) if d == ["a", k]]
        outs_ = [i for i, (s, d) in enumerate(links) if s == ["a", k]]
        if len(ins) == 1 and len(outs_) == 1:
            new = [l for i, l in enumerate(links) if i not in (ins[0], outs_[0])]
            new.insert(min(ins[0], len(new)), [links[ins[0]][0], links[outs_[0]][1]])
            yield {**case, "links": new}
    # make a static slot non-static
    for grp in ("comps", "outsiders"):
        for ci, spec in enumerate(case[grp]):
            for io in ("ins", "outs"):
                for p, s in enumerate(spec[io]):
                    if s[1]:
                        import copy
                        c2 = copy.deepcopy(case)
                        c2[grp][ci][io][p][1] = False
                        yield c2
