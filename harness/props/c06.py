"""C06 — iterative connect converges or reports exactly the stuck components.

Correspondence (two streams, both through the public API of the REAL finam):

* "comp": a Composition of 1-5 harness components (fm.TimeComponent subclasses).  Every slot has a
  declarative spec: an input may be constructed with an info, get its info from the component once
  given connector items are visible ("prov"), or from in_info_rules (FromInput/FromOutput/FromValue);
  an output likewise for its info, and its initial data is handed to try_connect once given items
  are visible (generator-like components, blocked pairs / rings).  The component's _connect looks
  only at its own connector (in_infos / in_data / out_infos) and calls try_connect exactly once.
  Observed: the status after EVERY _connect call (in call order), the error class, the component
  names in the circular-coupling message and the component statuses, and at the end
  connector.in_infos / in_data / out_infos / infos_pushed / data_pushed and Output.data of every slot.
* "script": one ConnectHelper driven directly (tests/tools/test_connect.py style) by a random
  sequence of connect(...) calls with stepwise provided infos / data, interleaved with
  push_info / push_data on the sources and exchange_info on the sinks.  Observed after every op.

The Coq model FV.Connect is evaluated on the same case (c06_check, vm_compute) and must give the same
observation.  The monitor is the property itself: a declarative least fixed point of the derivation
rules computed from the spec gives the expected outcome (success / stall set in list order), the final
items and the initial publications; every status must be CONNECTED iff all declared items are done,
CONNECTING iff the number of done items grew in that call, CONNECTING_IDLE otherwise.
"""
import copy
import itertools
import json
from datetime import timedelta

import numpy as np
from pathlib import Path

from ..coqgen import B, C, L, N, NONE, P, Some, Z
from .. import fin
from ..fin import fm, T, us_of, err_class

ID = "C06"
TITLE = "Iterative connect converges or reports exactly the stuck components"
COQ_IMPORTS = "From FV Require Import Base Connect."
COQ_CHECK = "c06_check"
COQ_MODEL_OBS = "c06_model"
CASE_TIMEOUT = 10
RULE = (
    "comp stream: random dependency shapes of 1-5 harness components (0-3 inputs / 0-3 outputs each, links to any "
    "output incl. own; link layouts: direct, behind one Scale, behind a chain of two, ONE Scale instance shared by "
    "several inputs, dead-end adapters on outputs, time delay adapters DelayFixed / DelayToPull / one shared DelayFixed, push-based "
    "AvgOverTime / SumOverTime / LinearTime on pulled links with staggered start times and explicit earlier start_time), infos from constructor / try_connect arguments with random "
    "dependencies on own in_infos, in_data, out_infos / transfer rules FromInput, FromOutput, FromValue; initial "
    "pulls on a random subset of inputs; data provision depending on pulled data (rings, blocked pairs, rings with "
    "one breaker); producers starting later than the composition; static outputs; cache on/off; dangling outputs; "
    "components that never provide something; ALL listing orders of base shapes with <= 4 components; "
    "script stream: random sequences of ConnectHelper.connect calls with stepwise provided arguments interleaved "
    "with source push_info/push_data and sink exchange_info.  non-trivial = (comp) >= 2 components and some "
    "component needed >= 2 _connect calls and the case has a pull, a rule or a dependency, (script) at least one "
    "CONNECTING and one CONNECTING_IDLE answer; distinct by canonical case hash"
)
TRUSTED = [
    "harness components call try_connect exactly once per _connect with what their declarative spec makes available",
    "connect_helper._check_times (static slots ignored, non-static infos of one component must agree) and the "
    "FinamTimeError of pulls before the producer's first publication are outside the model (generator keeps info "
    "times of one component equal and >= the composition start)",
]
ASSUMPTIONS = [
    "an Info is modelled by its time field; grid/units compatibility is C07",
    "payload tokens: output o publishes the value 10+o",
    "C06_fixpoint_full (final done-set = least fixed point of the derivation rules; all derivable => Success; stall "
    "set = owners of underivable items) is proved for well-formed setups: every slot owned by exactly one component and "
    "sp_ins = the owned inputs (wf_setup); the Python monitor computes the same least fixed point from the spec and "
    "compares it with the real finam on every case",
    "findings F19 (cache=False skipped transfer rules every second call -> false circular-coupling error) and F20 "
    "(_check_times compared the unset time of a static slot) are fixed in /repo (98cb380, 2216e00); their witnesses "
    "are in CORPUS and such setups are part of the default stream",
]

DAY = 86400 * 10**6
DELAY_VIAS = ("dfixed", "dpull", "sdfixed0")
# push-based time adapters (one per link): they buffer every publication of the producer and answer the consumer's
# initial pull for the composition start from their buffer
PUSH_VIAS = ("avg", "avgstep", "sum", "sumpt", "linear")
STAT = {"CONNECTING": "CONNECTING", "CONNECTING_IDLE": "CONNECTING_IDLE", "CONNECTED": "CONNECTED",
        "INITIALIZED": "INITIALIZED"}


# ----------------------------------------------------------------------------------------------
# case construction helpers
# ----------------------------------------------------------------------------------------------
def _inp(src, own=None, prov=None, rules=None, pull=False, static=False, via="direct"):
    return {"src": src, "own": own, "prov": prov, "rules": rules, "pull": pull, "static": static, "via": via}


def _out(own=None, prov_info=None, rules=None, prov_data=None, static=False, spare=False):
    return {"static": static, "own": own, "prov_info": prov_info, "rules": rules, "prov_data": prov_data, "spare": spare}


def _comp(ins, outs, time, cache=True):
    return {"ins": ins, "outs": outs, "cache": cache, "time": time}


def _ring(n, breaker, start=0, times=None):
    """n components, C_k pulls from C_{k-1} and publishes its data only after the pull (except the breaker)."""
    times = times or [start] * n
    ins = [_inp((k - 1) % n, own=times[k], pull=True) for k in range(n)]
    outs = [_out(prov_info=[[], times[k]], prov_data=[[] if k == breaker else [["pull", k]], 10 + k]) for k in range(n)]
    comps = [_comp([k], [k], times[k]) for k in range(n)]
    return {"kind": "comp", "start": start, "auto_start": False, "ins": ins, "outs": outs, "comps": comps}


def _perms(case, limit=24):
    n = len(case["comps"])
    out = []
    for p in itertools.islice(itertools.permutations(range(n)), limit):
        c = copy.deepcopy(case)
        c["comps"] = [case["comps"][k] for k in p]
        out.append(c)
    return out


def _gen_comp(rng, malformed=False):
    n = rng.choice([1, 2, 2, 2, 3, 3, 3, 4, 4, 5])
    start = rng.choice([0, 0, 5, DAY])
    late = rng.random() < 0.4
    ctimes = [start + (rng.choice([1, 7, DAY, 3 * DAY]) if late and rng.random() < 0.5 else 0) for _ in range(n)]
    if all(t != start for t in ctimes):
        ctimes[rng.randrange(n)] = start
    comps = [_comp([], [], ctimes[k], cache=(rng.random() < 0.8)) for k in range(n)]
    outs, ins = [], []
    # outputs
    for k in range(n):
        no = rng.choice([0, 1, 1, 1, 2, 2, 3])
        statics = [rng.random() < 0.12 for _ in range(no)]  # static outputs in any position
        for s in statics:
            comps[k]["outs"].append(len(outs))
            outs.append(_out(static=s))
    if not outs:
        comps[0]["outs"].append(0)
        outs.append(_out())
    for sp_ in outs:
        sp_["spare"] = rng.random() < 0.15  # a dead-end adapter next to the normal links
        sp_["masked"] = rng.random() < 0.2   # the initial value is a masked (missing) cell
    owner_o = {o: k for k in range(n) for o in comps[k]["outs"]}
    # inputs
    for k in range(n):
        ni = rng.choice([0, 1, 1, 1, 2, 2, 3])
        for _ in range(ni):
            cand = list(range(len(outs)))
            if rng.random() < 0.85:
                other = [o for o in cand if owner_o[o] != k]
                cand = other or cand
            src = rng.choice(cand)
            comps[k]["ins"].append(len(ins))
            vias = ["direct", "direct", "direct", "scale", "chain", "shared0", "shared0", "shared1"]
            if not outs[src]["static"]:
                vias += ["dfixed", "dfixed", "dpull", "sdfixed0", "sdfixed0"]
                if not outs[src]["masked"]:
                    vias += ["avg", "avg", "avgstep", "sum", "sum", "linear"]
            ins.append(_inp(src, static=outs[src]["static"], via=rng.choice(vias)))
    # fill in the specs
    for k in range(n):
        c = comps[k]
        t = c["time"]
        my_ins, my_outs = c["ins"], c["outs"]

        def deps(excl_out=None, p=0.22):
            ds = []
            for i in my_ins:
                if rng.random() < p:
                    ds.append(["in", i])
                if ins[i]["pull"] and rng.random() < p:
                    ds.append(["pull", i])
            for o in my_outs:
                if o != excl_out and rng.random() < p * 0.4:
                    ds.append(["out", o])
            return ds

        def rules(excl_in=None, excl_out=None, static=False):
            rs = []
            for _ in range(rng.choice([1, 1, 2, 3])):
                r = rng.random()
                nsi = [i for i in my_ins if i != excl_in and not ins[i]["static"]]
                nso = [o for o in my_outs if o != excl_out and not outs[o]["static"]]
                if r < 0.45 and nsi:
                    rs.append(["in", rng.choice(nsi), rng.random() < 0.7])
                elif r < 0.65 and nso:
                    rs.append(["out", rng.choice(nso), rng.random() < 0.7])
                else:
                    rs.append(["val", t if rng.random() < 0.7 else None])
            # the list must set the time (domain of the model)
            tset = False
            for r_ in rs:
                if (r_[0] in ("in", "out") and r_[2]) or (r_[0] == "val" and r_[1] is not None):
                    tset = True
            if not tset:
                rs.insert(rng.randrange(len(rs) + 1), ["val", t])
            if rng.random() < 0.4:
                # "later rules can overwrite attributes set by earlier rules": a free attribute after the transfers
                rs.append(["meta", "tag", f"t{rng.randrange(4)}"])
            return rs

        for i in my_ins:
            ins[i]["pull"] = rng.random() < 0.4
        for i in my_ins:
            sp = ins[i]
            r = rng.random()
            if sp["static"]:
                if r < 0.7:
                    sp["own"] = t
                else:
                    sp["prov"] = [deps(p=0.2), t]
            elif r < 0.55:
                sp["own"] = t
            elif r < 0.75:
                sp["prov"] = [deps(), t]
            elif r < 0.95:
                sp["rules"] = rules(excl_in=i)
            elif malformed:
                pass  # the component never provides an info for this input
            else:
                sp["own"] = t
            if sp["own"] is None and rng.random() < 0.05:
                sp["own"] = t  # own info together with prov / rules
        for o in my_outs:
            sp = outs[o]
            r = rng.random()
            if sp["static"]:
                if r < 0.5:
                    sp["own"] = t
                else:
                    sp["prov_info"] = [deps(excl_out=o, p=0.2), t]
            elif r < 0.25:
                sp["own"] = t
                if rng.random() < 0.5:
                    sp["tag"] = f"o{o}"
            elif r < 0.65:
                sp["prov_info"] = [deps(excl_out=o), t]
                if rng.random() < 0.5:
                    sp["tag"] = f"o{o}"
            elif r < 0.97 or not malformed:
                sp["rules"] = rules(excl_out=o)
            if sp["own"] is None and sp["rules"] is None and sp["prov_info"] is not None and rng.random() < 0.05:
                sp["own"] = t
            if not (malformed and rng.random() < 0.15):
                sp["prov_data"] = [deps(excl_out=None, p=rng.choice([0.0, 0.15, 0.4])), 10 + o]
    case = {"kind": "comp", "start": start, "auto_start": rng.random() < 0.3, "ins": ins, "outs": outs, "comps": comps}
    if not case["auto_start"] and rng.random() < 0.15:
        case["start"] = start - rng.choice([1, DAY])   # connect(start_time=...) earlier than every component
    rng.shuffle(case["comps"])
    return case


def _gen_script(rng):
    start = rng.choice([0, 5, DAY])
    t = start + rng.choice([0, 0, 3, DAY])
    ni = rng.choice([0, 1, 1, 2, 2, 3])
    no = rng.choice([0, 1, 1, 2, 2, 3])
    if ni + no == 0:
        ni = 1
    cache = rng.random() < 0.6
    ins, outs = [], []
    h = {"ins": [], "outs": [], "cache": cache}
    # helper outputs first, then env sources
    for _ in range(no):
        h["outs"].append(len(outs))
        outs.append(dict(_out(static=False, spare=rng.random() < 0.15), owner="h"))
    nsrc = max(1, rng.choice([1, ni, ni])) if ni else 0
    srcs = []
    for _ in range(nsrc):
        srcs.append(len(outs))
        outs.append(dict(_out(spare=rng.random() < 0.15), owner="env"))
    for _ in range(ni):
        h["ins"].append(len(ins))
        src = rng.choice(srcs + (h["outs"] if rng.random() < 0.1 and h["outs"] else []))
        ins.append(dict(_inp(src, via=rng.choice(["direct", "direct", "scale", "chain", "shared0"])), owner="h"))
    sinks = []
    for o in h["outs"]:
        for _ in range(rng.choice([0, 1, 1, 2])):
            sinks.append(len(ins))
            ins.append(dict(_inp(o, via=rng.choice(["direct", "direct", "scale", "shared0", "shared0"])), owner="env"))
    for i in h["ins"]:
        sp = ins[i]
        sp["pull"] = rng.random() < 0.6
        r = rng.random()
        if r < 0.3:
            sp["own"] = t
        elif r < 0.5:
            other_i = [j for j in h["ins"] if j != i]
            rs = []
            if other_i and rng.random() < 0.5:
                rs.append(["in", rng.choice(other_i), True])
            elif h["outs"] and rng.random() < 0.5:
                rs.append(["out", rng.choice(h["outs"]), True])
            else:
                rs.append(["val", t])
            if rng.random() < 0.3:
                rs.append(["val", None])
            sp["rules"] = rs
    for o in h["outs"]:
        sp = outs[o]
        r = rng.random()
        if r < 0.2:
            sp["own"] = t
        elif r < 0.5:
            rs = []
            if h["ins"] and rng.random() < 0.6:
                rs.append(["in", rng.choice(h["ins"]), True])
            else:
                other_o = [q for q in h["outs"] if q != o]
                if other_o and rng.random() < 0.5:
                    rs.append(["out", rng.choice(other_o), True])
                else:
                    rs.append(["val", t])
            sp["rules"] = rs
    ops = []
    ex_ok = [i for i in h["ins"] if ins[i]["rules"] is None]
    pi_ok = [o for o in h["outs"] if outs[o]["rules"] is None]
    for _ in range(rng.randint(6, 28)):
        r = rng.random()
        if r < 0.5 or not (srcs or sinks):
            ex = [[i, t] for i in ex_ok if rng.random() < 0.35]
            pi = [[o, t] for o in pi_ok if rng.random() < 0.35]
            pd = [[o, 10 + o] for o in h["outs"] if rng.random() < 0.35]
            ops.append(["connect", ex, pi, pd])
        elif r < 0.68 and srcs:
            ops.append(["srcinfo", rng.choice(srcs), t])
        elif r < 0.84 and srcs:
            o = rng.choice(srcs)
            ops.append(["srcdata", o, 10 + o])
        elif sinks:
            ops.append(["sinkex", rng.choice(sinks), t])
    # a tail that usually completes the connection
    if rng.random() < 0.7:
        for o in srcs:
            ops.append(["srcinfo", o, t])
        ops.append(["connect", [[i, t] for i in ex_ok], [[o, t] for o in pi_ok], [[o, 10 + o] for o in h["outs"]]])
        for i in sinks:
            ops.append(["sinkex", i, t])
        ops.append(["connect", [[i, t] for i in ex_ok], [[o, t] for o in pi_ok], [[o, 10 + o] for o in h["outs"]]])
        for o in srcs:
            ops.append(["srcdata", o, 10 + o])
        for _ in range(3):
            ops.append(["connect", [[i, t] for i in ex_ok], [[o, t] for o in pi_ok], [[o, 10 + o] for o in h["outs"]]])
    return {"kind": "script", "start": start, "ins": ins, "outs": outs, "helper": h, "ops": ops}


# hand-picked cases ---------------------------------------------------------------------------
def _corpus():
    cs = []
    # tests/core/test_schedule.py style chain: A (generator) -> B -> C, all orders
    chain = {"kind": "comp", "start": 0, "auto_start": True,
             "ins": [_inp(0, own=0, pull=True), _inp(1, own=0, pull=True)],
             "outs": [_out(prov_info=[[], 0], prov_data=[[], 10]),
                      _out(rules=[["in", 0, True]], prov_data=[[["pull", 0]], 11])],
             "comps": [_comp([], [0], 0), _comp([0], [1], 0), _comp([1], [], 0)]}
    cs += _perms(chain)
    # blocked pair (A needs B's data to publish and vice versa), ring of 3 without / with breaker
    cs += _perms(_ring(2, None))
    cs += _perms(_ring(3, None))
    cs += _perms(_ring(3, 1))
    cs += _perms(_ring(4, 2), limit=24)
    # producer starts later than the composition: double initial push
    cs += _perms(_ring(2, 0, start=0, times=[DAY, 0]))
    cs += _perms(_ring(3, 2, start=5, times=[5, 5 + 1, 5 + DAY]))
    # self loop without / with pull
    cs.append({"kind": "comp", "start": 0, "auto_start": False, "ins": [_inp(0, own=0)],
               "outs": [_out(prov_info=[[], 0], prov_data=[[], 10]), _out(prov_info=[[], 0], prov_data=[[], 11])],
               "comps": [_comp([0], [0, 1], 0)]})
    cs.append({"kind": "comp", "start": 0, "auto_start": False, "ins": [_inp(0, own=0, pull=True)],
               "outs": [_out(prov_info=[[], 0], prov_data=[[["pull", 0]], 10])], "comps": [_comp([0], [0], 0)]})
    # in-info from a rule (FromValue), producer listed after the consumer, cache on (cache off = finding F9 candidate)
    f9 = {"kind": "comp", "start": 0, "auto_start": False, "ins": [_inp(0, rules=[["val", 0]])],
          "outs": [_out(prov_info=[[], 0], prov_data=[[], 10])],
          "comps": [_comp([0], [], 0, cache=True), _comp([], [0], 0)]}
    cs += _perms(f9)
    # FromOutput rule for an input, FromInput for an output, two consumers of one output (one behind Scale)
    cs += _perms({"kind": "comp", "start": 0, "auto_start": False,
                  "ins": [_inp(0, rules=[["out", 1, True]], pull=True), _inp(0, own=3, via="scale"),
                          _inp(1, prov=[[["in", 1]], 3])],
                  "outs": [_out(own=3, prov_data=[[], 10]), _out(prov_info=[[], 0], prov_data=[[["pull", 0]], 11]),
                           _out(static=True, own=0, prov_data=[[], 12])],
                  "comps": [_comp([0], [1], 0), _comp([1, 2], [2, 0], 3)]})
    # a component that never provides the info of its output: itself and every dependant stuck
    cs += _perms({"kind": "comp", "start": 0, "auto_start": False,
                  "ins": [_inp(0, own=0), _inp(1, own=0, pull=True)],
                  "outs": [_out(prov_data=[[], 10]), _out(prov_info=[[["in", 0]], 0], prov_data=[[], 11])],
                  "comps": [_comp([], [0], 0), _comp([0], [1], 0), _comp([1], [], 0)]})
    # witnesses of the two repaired findings (fix commits 98cb380, 2216e00)
    # F19: cache=False + transfer rule, consumer listed before its source: false circular-coupling error
    cs += _perms({"kind": "comp", "start": 0, "auto_start": False, "ins": [_inp(0, rules=[["val", 0]])],
                  "outs": [_out(prov_info=[[], 0], prov_data=[[], 10])],
                  "comps": [_comp([0], [], 0, cache=False), _comp([], [0], 0)]})
    cs += _perms({"kind": "comp", "start": 0, "auto_start": False,
                  "ins": [_inp(0, own=0), _inp(1, own=0, pull=True)],
                  "outs": [_out(prov_info=[[], 0], prov_data=[[], 10]), _out(rules=[["in", 0, True]], prov_data=[[], 11])],
                  "comps": [_comp([1], [], 0), _comp([0], [1], 0, cache=False), _comp([], [0], 0)]})
    # F20: a static output declared after a non-static one: FinamTimeError when the component became connected
    cs.append({"kind": "comp", "start": 0, "auto_start": False, "ins": [],
               "outs": [_out(prov_info=[[], 0], prov_data=[[], 10]), _out(static=True, prov_info=[[], 0], prov_data=[[], 11])],
               "comps": [_comp([], [0, 1], 0)]})
    cs += _perms({"kind": "comp", "start": 0, "auto_start": False,
                  "ins": [_inp(0, own=0, pull=True), _inp(1, own=0, pull=True, static=True)],
                  "outs": [_out(prov_info=[[], 0], prov_data=[[], 10]), _out(static=True, own=0, prov_data=[[], 11])],
                  "comps": [_comp([0, 1], [], 0), _comp([], [0, 1], 0)]})
    # seeded/C06_b: exchanges are counted against the pinged end points, not the direct targets
    # (1) spare branch: a dead-end adapter next to a normal link, consumer pulls the initial value
    cs += _perms({"kind": "comp", "start": 0, "auto_start": False, "ins": [_inp(0, own=0, pull=True)],
                  "outs": [_out(prov_info=[[], 0], prov_data=[[], 10], spare=True)],
                  "comps": [_comp([], [0], 0), _comp([0], [], 0)]})
    cs.append({"kind": "comp", "start": 0, "auto_start": False, "ins": [],
               "outs": [_out(prov_info=[[], 0], prov_data=[[], 10], spare=True)], "comps": [_comp([], [0], 0)]})
    # (2) ONE adapter shared by two consumers; Late provides the info of its input only after pulling Aux
    cs += _perms({"kind": "comp", "start": 0, "auto_start": False,
                  "ins": [_inp(0, own=0, pull=True, via="shared0"),
                          _inp(0, prov=[[["pull", 2]], 0], pull=True, via="shared0"),
                          _inp(1, own=0, pull=True)],
                  "outs": [_out(prov_info=[[], 0], prov_data=[[], 10]), _out(prov_info=[[], 0], prov_data=[[], 11])],
                  "comps": [_comp([], [0], 0), _comp([], [1], 0), _comp([0], [], 0), _comp([1, 2], [], 0)]})
    # chain of two adapters, shared adapter inside one component
    cs += _perms({"kind": "comp", "start": 0, "auto_start": False,
                  "ins": [_inp(0, own=0, pull=True, via="chain"), _inp(0, prov=[[["pull", 0]], 0], via="shared1"),
                          _inp(0, own=0, via="shared1")],
                  "outs": [_out(prov_info=[[], 0], prov_data=[[], 10], spare=True)],
                  "comps": [_comp([0, 1], [], 0), _comp([2], [0], 0)]})
    # seeded/C06_h: time delay adapters on links that are pulled during connect, staggered start times:
    # the adapter clamps the initial request to the PRODUCER's start, whatever the consumer's own start is
    for via_a, via_b in (("dfixed", "dfixed"), ("dpull", "dpull"), ("sdfixed0", "sdfixed0"), ("dfixed", "direct")):
        for times in ([0, 4 * DAY, 0, 9 * DAY], [9 * DAY, 4 * DAY, 9 * DAY, 0], [0, 0, 0, 0]):
            cs += _perms(_delay_family(via_a, via_b, times), limit=24 if via_a == "sdfixed0" else 6)
    # seeded/C06_m: a masked (missing) initial value must be published as such for BOTH initial publications
    for masked, units in ((True, None), ("q", "km")):
        for times, start in (([4 * DAY, 0, 4 * DAY], 0), ([0, 0, 0], 0), ([DAY, DAY, 2 * DAY], 0)):
            cs += _perms(_masked_family(masked, units, times, start))
    # seeded/C06_k: push-based time adapters on pulled links; the producer publishes twice (own start later than the
    # composition start / explicit earlier start_time): the initial pull for the composition start hits the FIRST of
    # two buffered entries and must deliver the producer's initial value
    for via in PUSH_VIAS:
        for times, start in (([4 * DAY, 0, 0], 0), ([0, 0, 4 * DAY], 0), ([0, 0, 0], 0), ([DAY, DAY, DAY], 0), ([2 * DAY, DAY, 3 * DAY], 5)):
            cs += _perms(_push_family(via, times, start))
    # seeded/C06_f: a complete transfer followed by a rule overwriting a metadata field must not touch the source slot
    for extra in ([["meta", "units", "mm"]], [["meta", "tag", "stored water"]],
                  [["meta", "units", "mm"], ["meta", "tag", "stored water"]], []):
        cs += _perms(_meta_family(extra))
    # the same with FromOutput as the complete transfer, for an input's info
    cs += _perms({"kind": "comp", "start": 0, "auto_start": False,
                  "ins": [dict(_inp(0, own=0, pull=True), units_none=True), _inp(1, rules=[["out", 2, True], ["meta", "tag", "x"]])],
                  "outs": [dict(_out(prov_info=[[], 0], prov_data=[[], 10]), units="mm/d", tag="rain rate"),
                           _out(prov_info=[[], 0], prov_data=[[], 11]),
                           dict(_out(prov_info=[[], 0], prov_data=[[], 12]), tag="level")],
                  "comps": [_comp([], [0, 1], 0), _comp([0, 1], [2], 0)]})
    return cs


def _delay_family(via_a, via_b, times):
    """Source.Out -> Mid.In (via_a), Source.Out -> Side.In (via_b), Mid.State -> Last.In (via_a); all pulled."""
    ts, tm, tsd, tl = times
    return {"kind": "comp", "start": min(times), "auto_start": False,
            "ins": [_inp(0, own=tm, pull=True, via=via_a), _inp(0, own=tsd, pull=True, via=via_b),
                    _inp(1, own=tl, pull=True, via=via_a if via_a != "sdfixed0" else "dfixed")],
            "outs": [_out(prov_info=[[], ts], prov_data=[[], 10]), _out(prov_info=[[], tm], prov_data=[[["pull", 0]], 11])],
            "comps": [_comp([], [0], ts), _comp([0], [1], tm), _comp([1], [], tsd), _comp([2], [], tl)]}


def _masked_family(masked, units, times, start):
    """Producer.Field (masked initial value) -> Early.In (pulled, direct), -> Late.In (pulled, behind DelayFixed)."""
    tp, te, tl = times
    un = units is not None
    return {"kind": "comp", "start": start, "auto_start": False,
            "ins": [dict(_inp(0, own=te, pull=True), units_none=un), dict(_inp(0, own=tl, pull=True, via="dfixed"), units_none=un)],
            "outs": [dict(_out(prov_info=[[], tp], prov_data=[[], 10]), masked=masked, units=units)],
            "comps": [_comp([], [0], tp), _comp([0], [], te), _comp([1], [], tl)]}


def _push_family(via, times, start):
    """Source.Out -> Mid.In (pulled, behind a push-based time adapter); Mid.State -> Last.In (same); explicit start."""
    ts, tm, tl = times
    un = via == "sumpt"
    return {"kind": "comp", "start": start, "auto_start": False,
            "ins": [dict(_inp(0, own=tm, pull=True, via=via), units_none=un), dict(_inp(1, own=tl, pull=True, via=via), units_none=un)],
            "outs": [_out(prov_info=[[], ts], prov_data=[[], 10]), _out(prov_info=[[], tm], prov_data=[[["pull", 0]], 11])],
            "comps": [_comp([], [0], ts), _comp([0], [1], tm), _comp([1], [], tl)]}


def _meta_family(extra):
    """Rain.Rate (mm/d, tagged) -> Bucket.Rate (pulled, accepts any units); Bucket.Storage gets its info from
    [FromInput(Rate)] + extra; Sink pulls Bucket.Storage."""
    return {"kind": "comp", "start": 0, "auto_start": False,
            "ins": [dict(_inp(0, own=0, pull=True), units_none=True), dict(_inp(1, own=0, pull=True), units_none=True)],
            "outs": [dict(_out(prov_info=[[], 0], prov_data=[[], 10]), units="mm/d", tag="rain rate"),
                     _out(rules=[["in", 0, True]] + extra, prov_data=[[], 11])],
            "comps": [_comp([], [0], 0), _comp([0], [1], 0), _comp([1], [], 0)]}


CORPUS = _corpus()


def generate(rng, tier):
    quick = tier == "quick"
    cases = list(CORPUS)
    n_shapes, n_rand, n_script = (60, 1500, 900) if quick else (400, 20000, 12000)
    k = 0
    while k < n_shapes:
        c = _gen_comp(rng)
        if len(c["comps"]) > 4:
            continue
        k += 1
        cases += _perms(c, limit=24 if len(c["comps"]) <= 3 or not quick else 8)
    k = 0
    while k < n_rand:
        c = _gen_comp(rng, malformed=(k % 7 == 6))
        k += 1
        cases.append(c)
        if k % 25 == 0:
            cases.append(_ring(rng.choice([2, 3, 4, 5]), rng.choice([None, 0, 1]), start=rng.choice([0, DAY])))
    for _ in range(n_script):
        cases.append(_gen_script(rng))
    return cases


# ----------------------------------------------------------------------------------------------
# implementation driver
# ----------------------------------------------------------------------------------------------
def _info(t, static=False, units="", tag=None):
    kw = {}
    if units != "":
        kw["units"] = units          # None = "accept the source's units"
    if tag is not None:
        kw["c06tag"] = tag           # a free descriptive attribute
    return fm.Info(time=None if static else T(t), grid=fm.NoGrid(), **kw)


def _in_kw(sp):
    return {"units": None} if sp.get("units_none") else {}


def _out_kw(sp):
    return {"units": sp.get("units") or "", "tag": sp.get("tag")}


def _mk_rules(rs):
    tools = fm.tools
    out = [tools.FromValue("grid", fm.NoGrid())]
    for r in rs:
        if r[0] == "in":
            fields = (None if r[1] % 2 == 0 else ["time", "grid"]) if r[2] else ["grid"]
            out.append(tools.FromInput(f"In{r[1]}", fields))
        elif r[0] == "out":
            fields = (None if r[1] % 2 == 0 else ["time", "grid"]) if r[2] else ["grid"]
            out.append(tools.FromOutput(f"Out{r[1]}", fields))
        elif r[0] == "meta":
            out.append(tools.FromValue("units" if r[1] == "units" else "c06tag", r[2]))
        elif r[1] is None:
            out.append(tools.FromValue("source", "c06"))
        else:
            out.append(tools.FromValue("time", T(r[1])))
    return out


def _count_done(conn):
    return (sum(v is not None for v in conn.in_infos.values()) + sum(v is not None for v in conn.in_data.values())
            + sum(v is not None for v in conn.out_infos.values()) + sum(bool(v) for v in conn.infos_pushed.values())
            + sum(bool(v) for v in conn.data_pushed.values()))


def _count_declared(conn):
    return (len(conn.in_infos) + len(conn.in_data) + len(conn.out_infos) + len(conn.infos_pushed) + len(conn.data_pushed))


def _dep_ok(conn, d):
    if d[0] == "in":
        return conn.in_infos[f"In{d[1]}"] is not None
    if d[0] == "pull":
        return conn.in_data[f"In{d[1]}"] is not None
    return conn.out_infos[f"Out{d[1]}"] is not None


class HC(fm.TimeComponent):
    def __init__(self, case, k, log):
        super().__init__()
        self._case, self._k, self._log = case, k, log
        self._peers = None
        self._cs = case["comps"][k]
        self.time = T(self._cs["time"])
        n_items = sum(len(_items_of(case, c)) for c in case["comps"])
        self._bound = (n_items + len(case["comps"]) + 1) * max(1, len(case["comps"]))

    def _next_time(self):
        return self.time + timedelta(days=1)

    def _initialize(self):
        case, cs = self._case, self._cs
        for i in cs["ins"]:
            sp = case["ins"][i]
            info = _info(sp["own"], sp["static"], **_in_kw(sp)) if sp["own"] is not None else None
            self.inputs.add(name=f"In{i}", info=info, static=sp["static"])
        for o in cs["outs"]:
            sp = case["outs"][o]
            info = _info(sp["own"], sp["static"], **_out_kw(sp)) if sp["own"] is not None else None
            self.outputs.add(name=f"Out{o}", info=info, static=sp["static"])
        self.create_connector(
            pull_data=[f"In{i}" for i in cs["ins"] if case["ins"][i]["pull"]],
            in_info_rules={f"In{i}": _mk_rules(case["ins"][i]["rules"]) for i in cs["ins"] if case["ins"][i]["rules"] is not None},
            out_info_rules={f"Out{o}": _mk_rules(case["outs"][o]["rules"]) for o in cs["outs"] if case["outs"][o]["rules"] is not None},
            cache=cs["cache"],
        )

    def _connect(self, start_time):
        case, cs, conn = self._case, self._cs, self.connector
        ex, pi, pd = {}, {}, {}
        for i in cs["ins"]:
            sp = case["ins"][i]
            if sp["prov"] is not None and all(_dep_ok(conn, d) for d in sp["prov"][0]):
                ex[f"In{i}"] = _info(sp["prov"][1], sp["static"], **_in_kw(sp))
        for o in cs["outs"]:
            sp = case["outs"][o]
            if sp["prov_info"] is not None and all(_dep_ok(conn, d) for d in sp["prov_info"][0]):
                pi[f"Out{o}"] = _info(sp["prov_info"][1], sp["static"], **_out_kw(sp))
            if sp["prov_data"] is not None and all(_dep_ok(conn, d) for d in sp["prov_data"][0]):
                pd[f"Out{o}"] = _make_payload(sp)
        before = _count_done(conn)
        if len(self._log) > self._bound:
            # more calls than the proven bound of C06_terminates allows: stop the run, the monitor reports it
            raise RuntimeError("C06: connect loop exceeded the proven iteration bound")
        self.try_connect(start_time, exchange_infos=ex, push_infos=pi, push_data=pd)
        outstanding = []
        if self.status.name == "CONNECTED" and self._peers is not None:
            in_owner, _ = self._peers
            for i, isp in enumerate(case["ins"]):
                if isp["src"] in cs["outs"] and in_owner[i].connector.in_infos[f"In{i}"] is None:
                    outstanding.append(i)
        self._log.append([self._k, self.status.name, before, _count_done(conn), _count_declared(conn), outstanding])

    def _validate(self):
        pass

    def _update(self):
        self._time += timedelta(days=1)

    def _finalize(self):
        pass


MASK_LOST, MASK_UNEXPECTED = 4997, 4996


def _make_payload(sp):
    """The initial data of an output: a number, or - "masked" - a missing value (masked cell whose memory holds the
    token), bare or wrapped in a quantity."""
    p = float(sp["prov_data"][1])
    if not sp.get("masked"):
        return p
    arr = np.ma.masked_array(p, mask=True)
    return fm.UNITS.Quantity(arr, sp.get("units") or "") if sp["masked"] == "q" else arr


def _payload(d, masked=False):
    """token of a publication / pulled value; a masked output's value must arrive masked"""
    try:
        m = np.ma.getmaskarray(fin.magnitude(d)).reshape(-1)
        if masked:
            if not m.all():
                return MASK_LOST
            return int(round(float(np.ma.getdata(fin.magnitude(d)).reshape(-1)[0])))
        if m.any():
            return MASK_UNEXPECTED
    except Exception:  # noqa
        return 4998
    try:
        v = fin.scalar_of(d)
        if v != v or abs(v) > 4000:
            return 4998
        return int(round(v))
    except Exception:  # noqa  (e.g. an object array holding None)
        return 4998


def _t_or_nominal(info, nominal, static):
    if info is None:
        return None
    if info.time is None:
        return nominal if static else -1
    return us_of(info.time)


def _nominal_in(sp):
    if sp["own"] is not None:
        return sp["own"]
    if sp["prov"] is not None:
        return sp["prov"][1]
    return -2


def _nominal_out(sp):
    if sp["own"] is not None:
        return sp["own"]
    if sp.get("prov_info") is not None:
        return sp["prov_info"][1]
    return -2




def _is_delay(via):
    return via in DELAY_VIAS


def _evicted(case, o, ins_obs):
    """Output._clear_data: once EVERY pinged end point of the output has pulled, entries older than the oldest
    request are dropped.  During connect plain links request the composition start, links with a time delay adapter
    request the producer's start (the adapter clamps to it), push-based time adapters pull at every publication, so
    the entry for the composition start goes exactly when every end point of the output is a push-based adapter or sits
    behind a delay adapter and has pulled."""
    mine = [i for i, isp in enumerate(case["ins"]) if isp["src"] == o]

    def late(i):
        isp = case["ins"][i]
        if isp["via"] in PUSH_VIAS:      # the adapter itself is the end point and pulls at every push
            return True
        return _is_delay(isp["via"]) and isp["pull"] and ins_obs[i][1] is not None

    return bool(mine) and all(late(i) for i in mine)


def _link_all(case, out_obj, in_obj):
    """direct / one Scale / a chain of two Scales per input / ONE Scale instance shared by all inputs of the
    same source with the same group tag; plus dead-end adapters on outputs marked spare."""
    shared = {}
    for i, sp in enumerate(case["ins"]):
        out, inp, via = out_obj[sp["src"]], in_obj[i], sp["via"]
        if via == "scale":
            out >> fm.adapters.Scale(1.0) >> inp
        elif via == "chain":
            out >> fm.adapters.Scale(1.0) >> fm.adapters.Scale(1.0) >> inp
        elif via.startswith("shared") or via.startswith("sdfixed"):
            key = (sp["src"], via)
            if key not in shared:
                shared[key] = fm.adapters.Scale(1.0) if via.startswith("shared") else fm.adapters.DelayFixed(fin.D(DAY))
                out >> shared[key]
            shared[key] >> inp
        elif via in PUSH_VIAS:
            ada = {"avg": lambda: fm.adapters.AvgOverTime(), "avgstep": lambda: fm.adapters.AvgOverTime(step=0.5),
                   "sum": lambda: fm.adapters.SumOverTime(per_time=False),
                   "sumpt": lambda: fm.adapters.SumOverTime(per_time=True, initial_interval=timedelta(seconds=1)),
                   "linear": lambda: fm.adapters.LinearTime()}[via]()
            out >> ada >> inp
        elif via == "dfixed":
            out >> fm.adapters.DelayFixed(fin.D([1, DAY, 3 * DAY][i % 3])) >> inp
        elif via == "dpull":
            out >> fm.adapters.DelayToPull(steps=1 + i % 2, additional_delay=fin.D([0, DAY][(i // 2) % 2])) >> inp
        else:
            out >> inp
    for o, sp in enumerate(case["outs"]):
        if sp.get("spare"):
            out_obj[o] >> fm.adapters.Scale(2.0)


def _run_comp(case):
    log = []
    n = len(case["comps"])
    comps = [HC(case, k, log).with_name(f"C{k}") for k in range(n)]
    composition = fm.Composition(comps, print_log=False)
    in_obj, out_obj, in_owner, out_owner = {}, {}, {}, {}
    for k, c in enumerate(case["comps"]):
        for i in c["ins"]:
            in_obj[i] = comps[k].inputs[f"In{i}"]
            in_owner[i] = comps[k]
        for o in c["outs"]:
            out_obj[o] = comps[k].outputs[f"Out{o}"]
            out_owner[o] = comps[k]
    _link_all(case, out_obj, in_obj)
    for cmp_ in comps:
        cmp_._peers = (in_owner, case)
    error, names = None, None
    try:
        composition.connect(None if case["auto_start"] else T(case["start"]))
    except Exception as e:  # noqa
        error = err_class(e)
        if error == "CircularCoupling":
            # the property is about exactly which components are listed
            msg = str(e)
            lst = msg[msg.rindex("[") + 1: msg.rindex("]")]
            names = [int(x.strip()[1:]) for x in lst.split(",") if x.strip()]
    final = []
    for cmp_ in comps:
        s = cmp_.status.name
        final.append("CONNECTED" if (error is None and s == "VALIDATED") else s)
    ins_obs, outs_obs = [], []
    for i, sp in enumerate(case["ins"]):
        conn = in_owner[i].connector
        nm = f"In{i}"
        d = conn.in_data.get(nm)
        src_masked = bool(case["outs"][sp["src"]].get("masked"))
        ins_obs.append([_t_or_nominal(conn.in_infos[nm], _nominal_in(sp), sp["static"]),
                        None if d is None else _payload(d, src_masked)])
    for o, sp in enumerate(case["outs"]):
        conn = out_owner[o].connector
        nm = f"Out{o}"
        data = [[us_of(t), _payload(out_obj[o]._unpack(d), bool(sp.get("masked")))] for t, d in out_obj[o].data]
        outs_obs.append([_t_or_nominal(conn.out_infos[nm], _nominal_out(sp), sp["static"]), bool(conn.infos_pushed[nm]),
                         bool(conn.data_pushed[nm]), data])
    def _meta(info):
        if info is None:
            return None
        u = info.meta.get("units")
        return [info.meta.get("c06tag"), None if u is None else str(u)]

    meta_ins = [[_meta(in_owner[i].connector.in_infos[f"In{i}"]), _meta(in_obj[i].info)] for i in range(len(case["ins"]))]
    meta_outs = [_meta(out_owner[o].connector.out_infos[f"Out{o}"]) for o in range(len(case["outs"]))]
    return {"meta_ins": meta_ins, "meta_outs": meta_outs, "events": log, "error": error, "stall_names": names,
            "stall_status": [k for k, s in enumerate(final) if s != "CONNECTED"] if error is not None else None,
            "final": final, "ins": ins_obs, "outs": outs_obs}


def _run_script(case):
    from finam.sdk.component import IOList
    from finam.tools.connect_helper import ConnectHelper

    h = case["helper"]
    inputs, outputs = IOList(None, "INPUT"), IOList(None, "OUTPUT")
    in_obj, out_obj = {}, {}
    for o, sp in enumerate(case["outs"]):
        info = _info(sp["own"], sp["static"]) if sp["own"] is not None else None
        if sp["owner"] == "h":
            outputs.add(name=f"Out{o}", info=info, static=sp["static"])
            out_obj[o] = outputs[f"Out{o}"]
        else:
            out_obj[o] = fm.Output(name=f"Out{o}", info=info)
    for i, sp in enumerate(case["ins"]):
        info = _info(sp["own"], sp["static"]) if sp["own"] is not None else None
        if sp["owner"] == "h":
            inputs.add(name=f"In{i}", info=info, static=sp["static"])
            in_obj[i] = inputs[f"In{i}"]
        else:
            in_obj[i] = fm.Input(name=f"In{i}", info=info)
    _link_all(case, out_obj, in_obj)
    for i in range(len(case["ins"])):
        in_obj[i].ping()
    conn = ConnectHelper(
        "C06", inputs, outputs,
        pull_data=[f"In{i}" for i in h["ins"] if case["ins"][i]["pull"]],
        in_info_rules={f"In{i}": _mk_rules(case["ins"][i]["rules"]) for i in h["ins"] if case["ins"][i]["rules"] is not None},
        out_info_rules={f"Out{o}": _mk_rules(case["outs"][o]["rules"]) for o in h["outs"] if case["outs"][o]["rules"] is not None},
        cache=h["cache"],
    )
    start = T(case["start"])
    res = []
    for op in case["ops"]:
        try:
            if op[0] == "connect":
                st = conn.connect(
                    start,
                    exchange_infos={f"In{i}": _info(t) for i, t in op[1]},
                    push_infos={f"Out{o}": _info(t) for o, t in op[2]},
                    push_data={f"Out{o}": float(p) for o, p in op[3]},
                )
                snap_in, snap_out = [], []
                for i in h["ins"]:
                    nm = f"In{i}"
                    d = conn.in_data.get(nm)
                    snap_in.append([_t_or_nominal(conn.in_infos[nm], -2, False), None if d is None else _payload(d)])
                for o in h["outs"]:
                    nm = f"Out{o}"
                    snap_out.append([_t_or_nominal(conn.out_infos[nm], -2, False), bool(conn.infos_pushed[nm]), bool(conn.data_pushed[nm])])
                res.append(["status", st.name, snap_in, snap_out])
            elif op[0] == "srcinfo":
                out_obj[op[1]].push_info(_info(op[2]))
                res.append(["ok"])
            elif op[0] == "srcdata":
                out_obj[op[1]].push_data(float(op[2]), start)
                res.append(["ok"])
            else:
                in_obj[op[1]].exchange_info(_info(op[2]))
                res.append(["ok"])
        except Exception as e:  # noqa
            res.append([err_class(e)])
    return {"results": res}


def run_impl(case):
    return _run_comp(case) if case["kind"] == "comp" else _run_script(case)


# ----------------------------------------------------------------------------------------------
# Gallina emitter
# ----------------------------------------------------------------------------------------------
def OZ(t):
    return NONE if t is None else Some(Z(t))


def ON(n):
    return NONE if n is None else Some(N(n))


def _dep(d):
    return C({"in": "DIn", "pull": "DPull", "out": "DOut"}[d[0]], N(d[1]))


def _rule(r):
    if r[0] == "in":
        return C("FromIn", N(r[1]), B(r[2]))
    if r[0] == "out":
        return C("FromOut", N(r[1]), B(r[2]))
    if r[0] == "meta":
        return C("FromVal", NONE)   # sets a metadata field, not the time
    return C("FromVal", OZ(r[1]))


def _prov(p, val):
    return NONE if p is None else Some(P(L(_dep(d) for d in p[0]), val(p[1])))


def _rules(rs):
    return NONE if rs is None else Some(L(_rule(r) for r in rs))


def _ispec(sp):
    return C("mk_ispec", N(sp["src"]), OZ(sp["own"]), _prov(sp["prov"], Z), _rules(sp["rules"]), B(sp["pull"]))


def _ospec(sp):
    return C("mk_ospec", B(sp["static"]), OZ(sp["own"]), _prov(sp["prov_info"], Z), _rules(sp["rules"]), _prov(sp["prov_data"], N),
             B(sp.get("spare", False)))


def _ccomp(c):
    return C("mk_comp", L(N(i) for i in c["ins"]), L(N(o) for o in c["outs"]), B(c["cache"]))


def coq_case(case, obs):
    ins, outs = L(_ispec(s) for s in case["ins"]), L(_ospec(s) for s in case["outs"])
    if case["kind"] == "comp":
        return C("CaseComp", ins, outs, L(_ccomp(c) for c in case["comps"]), Z(case["start"]))
    ops = []
    for op in case["ops"]:
        if op[0] == "connect":
            ops.append(C("SConnect", L(P(N(i), Z(t)) for i, t in op[1]), L(P(N(o), Z(t)) for o, t in op[2]),
                         L(P(N(o), N(p)) for o, p in op[3])))
        elif op[0] == "srcinfo":
            ops.append(C("SSrcInfo", N(op[1]), Z(op[2])))
        elif op[0] == "srcdata":
            ops.append(C("SSrcData", N(op[1]), N(op[2])))
        else:
            ops.append(C("SSinkEx", N(op[1]), Z(op[2])))
    return C("CaseScript", ins, outs, _ccomp(case["helper"]), Z(case["start"]), L(ops))


def coq_obs(case, obs):
    if case["kind"] == "comp":
        if obs["error"] not in (None, "CircularCoupling") or any(s not in STAT for s in obs["final"]) \
                or any(e[1] not in STAT for e in obs["events"]):
            return "ObsBad"
        if obs["error"] is not None and obs["stall_names"] != obs["stall_status"]:
            return "ObsBad"
        ev = L(P(N(e[0]), e[1]) for e in obs["events"])
        circ = NONE if obs["error"] is None else Some(L(N(k) for k in obs["stall_names"]))
        fin_ = L(obs["final"])
        ins = L(P(OZ(t), ON(p)) for t, p in obs["ins"])
        outs_c = []
        for o, (h, ip, dp, data) in enumerate(obs["outs"]):
            if dp and not case["outs"][o]["static"] and h is not None and h != case["start"] and len(data) == 1 \
                    and data[0][0] == h and _evicted(case, o, obs["ins"]):
                data = [[case["start"], data[0][1]]] + data   # see _evicted
            outs_c.append((h, ip, dp, data))
        outs = L(P(OZ(h), B(ip), B(dp), L(P(OZ(t), N(p)) for t, p in data)) for h, ip, dp, data in outs_c)
        return C("ObsComp", C("mk_cobs", ev, circ, fin_, ins, outs))
    items = []
    for r in obs["results"]:
        if r[0] == "status":
            if r[1] not in STAT:
                return "ObsBad"
            items.append(C("RStatus", r[1], L(P(OZ(t), ON(p)) for t, p in r[2]), L(P(OZ(hh), B(ip), B(dp)) for hh, ip, dp in r[3])))
        elif r[0] == "ok":
            items.append("ROk")
        elif r[0] == "NoDataError":
            items.append("RNoData")
        elif r[0] == "MetaDataError":
            items.append("RMeta")
        else:
            return "ObsBad"
    return C("ObsScript", L(items))


# ----------------------------------------------------------------------------------------------
# property monitor: declarative least fixed point of the derivation rules
# ----------------------------------------------------------------------------------------------
def _items_of(case, c):
    its = []
    for i in c["ins"]:
        its.append(("in", i))
        if case["ins"][i]["pull"]:
            its.append(("pull", i))
    for o in c["outs"]:
        its += [("out", o), ("ipushed", o), ("dpushed", o)]
    return its


def lfp(case):
    ins, outs = case["ins"], case["outs"]
    D = set()

    def deps_ok(ds):
        return all((d[0], d[1]) in D for d in ds)

    def rules_ok(rs):
        return all(r[0] in ("val", "meta") or (r[0], r[1]) in D for r in rs)

    def have_info_in(sp):
        return sp["own"] is not None or (sp["prov"] is not None and deps_ok(sp["prov"][0])) or \
            (sp["rules"] is not None and rules_ok(sp["rules"]))

    changed = True
    while changed:
        changed = False
        new = set()
        for o, sp in enumerate(outs):
            if sp["own"] is not None or (sp["prov_info"] is not None and deps_ok(sp["prov_info"][0])) or \
                    (sp["rules"] is not None and rules_ok(sp["rules"])):
                new.add(("ipushed", o))
            if ("ipushed", o) in D and all(("in", i) in D for i, isp in enumerate(ins) if isp["src"] == o):
                new.add(("out", o))
            if sp["prov_data"] is not None and deps_ok(sp["prov_data"][0]) and ("ipushed", o) in D and ("out", o) in D:
                new.add(("dpushed", o))
        for i, sp in enumerate(ins):
            if have_info_in(sp) and ("ipushed", sp["src"]) in D:
                new.add(("in", i))
            if sp["pull"] and ("in", i) in D and ("dpushed", sp["src"]) in D:
                new.add(("pull", i))
        if not new <= D:
            D |= new
            changed = True
    return D


def _expected_data(case, o, tinfo):
    sp = case["outs"][o]
    if not any(isp["src"] == o for isp in case["ins"]) and not sp.get("spare"):
        return []
    p = sp["prov_data"][1]
    if sp["static"]:
        return [[None, p]]
    if tinfo == case["start"]:
        return [[tinfo, p]]
    return [[case["start"], p], [tinfo, p]]


ABSENT = "<absent>"
UNKNOWN = "<unknown>"


def _meta_flow(case, key):
    """Declarative value of one metadata field ("tag": the free attribute c06tag, "units") of every exchanged info:
    an output holds what was declared for it (constructor / try_connect argument / its rule list, evaluated in order:
    a complete FromInput/FromOutput takes the field of that slot, FromValue sets it); an input holds its own request
    where that sets the field, else what the output on its link holds.  Rules affect only the slot they are declared for."""
    ins, outs = case["ins"], case["outs"]
    init = ABSENT if key == "tag" else ""

    def rules_val(rs, stack):
        acc = init
        for r in rs:
            if r[0] in ("in", "out") and r[2] and r[1] % 2 == 0:      # complete transfer (no field list)
                acc = (inv if r[0] == "in" else outv)(r[1], stack)
            elif r[0] == "meta" and r[1] == key:
                acc = r[2]
        return acc

    def outv(o, stack):
        if ("o", o) in stack:
            return UNKNOWN
        sp = outs[o]
        if sp["own"] is not None or sp["prov_info"] is not None:
            if key == "tag":
                return sp.get("tag") or ABSENT
            return sp.get("units") or ""
        if sp["rules"] is not None:
            return rules_val(sp["rules"], stack | {("o", o)})
        return UNKNOWN

    def inv(i, stack):
        if ("i", i) in stack:
            return UNKNOWN
        sp = ins[i]
        if sp["own"] is not None or sp["prov"] is not None:
            req = ABSENT if (key == "tag" or sp.get("units_none")) else ""
        elif sp["rules"] is not None:
            req = rules_val(sp["rules"], stack | {("i", i)})
        else:
            return UNKNOWN
        if req == UNKNOWN:
            return UNKNOWN
        if req != ABSENT:
            return req
        up = outv(sp["src"], stack | {("i", i)})
        if key == "units" and sp["via"] == "sumpt":      # SumOverTime(per_time=True) multiplies the units by time
            return "second" if up == "" else UNKNOWN
        return up

    return inv, outv


def _meta_eq(key, got, exp):
    if key == "tag":
        return (got if got is not None else ABSENT) == exp
    try:
        return got is not None and fm.UNITS.Unit(got) == fm.UNITS.Unit(exp)
    except Exception:
        return False


def _monitor_meta(case, obs):
    for k, key in enumerate(("tag", "units")):
        inv, outv = _meta_flow(case, key)
        for o, m in enumerate(obs["meta_outs"]):
            if m is None:
                continue
            exp = outv(o, frozenset())
            if exp != UNKNOWN and not _meta_eq(key, m[k], exp):
                return f"output {o}: exchanged info holds {key} {m[k]!r}, declared for this output: {exp!r}"
        for i, (mc, mi) in enumerate(obs["meta_ins"]):
            if mc is None:
                continue
            exp = inv(i, frozenset())
            if exp == UNKNOWN:
                continue
            for where, m in (("connector.in_infos", mc), ("inputs[..].info", mi)):
                if m is not None and not _meta_eq(key, m[k], exp):
                    return (f"input {i} ({where}) holds {key} {m[k]!r} after connect although {exp!r} was exchanged on its "
                            f"link with output {case['ins'][i]['src']} (rules only affect the slot they are declared for)")
    return None


def _monitor_comp(case, obs):
    comps = case["comps"]
    n_items = sum(len(_items_of(case, c)) for c in comps)
    # per call: status <-> progress
    for k, st, before, after, declared, outstanding in obs["events"]:
        if outstanding:
            return (f"component {k} was reported CONNECTED while the metadata exchange of input(s) {outstanding} "
                    f"with its output was still outstanding")
        if after < before:
            return f"component {k}: number of done items decreased in a connect call ({before} -> {after})"
        if st == "CONNECTED":
            if after != declared:
                return f"component {k} reported CONNECTED with {declared - after} declared exchange(s) outstanding"
        elif after == declared:
            return f"component {k} reported {st} although all {declared} declared exchanges are done"
        elif st == "CONNECTING":
            if after == before:
                return f"component {k} reported CONNECTING (progress) but nothing new was exchanged"
        elif st == "CONNECTING_IDLE":
            if after != before:
                return f"component {k} reported CONNECTING_IDLE although {after - before} new item(s) were exchanged"
        else:
            return f"component {k}: unexpected status {st} after _connect"
    # termination bound: <= #items + #components + 1 rounds of at most #components calls each
    if len(obs["events"]) > (n_items + len(comps) + 1) * max(1, len(comps)):
        return f"{len(obs['events'])} connect calls exceed the bound for {n_items} items / {len(comps)} components"
    if obs["error"] == "RuntimeError":
        return (f"connect() did not terminate within {n_items} + {len(comps)} + 1 rounds "
                f"({len(obs['events'])} _connect calls so far)")
    if obs["error"] not in (None, "CircularCoupling"):
        return f"connect raised {obs['error']}"
    D = lfp(case)
    stuck = [k for k, c in enumerate(comps) if any(it not in D for it in _items_of(case, c))]
    if not stuck:
        if obs["error"] is not None:
            return (f"all declared exchanges are derivable (dependencies acyclic) but connect raised {obs['error']} "
                    f"listing {obs['stall_names']}")
    else:
        if obs["error"] is None:
            return f"components {stuck} own underivable exchanges but connect returned normally"
        if obs["stall_names"] != stuck:
            return f"circular-coupling error lists {obs['stall_names']}, the components that cannot complete are {stuck}"
        if obs["stall_status"] != stuck:
            return f"components not CONNECTED after the error: {obs['stall_status']}, expected {stuck}"
    # final items = least fixed point
    for i, (t, p) in enumerate(obs["ins"]):
        if (t is not None) != (("in", i) in D):
            return f"input {i}: info exchanged = {t is not None}, derivable = {('in', i) in D}"
        if case["ins"][i]["pull"] and (p is not None) != (("pull", i) in D):
            return f"input {i}: initial data pulled = {p is not None}, derivable = {('pull', i) in D}"
        if p is not None and p != case["outs"][case["ins"][i]["src"]]["prov_data"][1]:
            return f"input {i}: initial pull delivered {p}, the producer's initial payload is {case['outs'][case['ins'][i]['src']]['prov_data'][1]}"
    for o, (h, ip, dp, data) in enumerate(obs["outs"]):
        for nm, got in (("out", h is not None), ("ipushed", ip), ("dpushed", dp)):
            if got != ((nm, o) in D):
                return f"output {o}: {nm} done = {got}, derivable = {(nm, o) in D}"
        exp = _expected_data(case, o, h) if dp else []
        if len(exp) == 2 and _evicted(case, o, obs["ins"]):
            exp = exp[1:]
        if data != exp:
            lost = [t for t, pl in data if pl == MASK_LOST]
            note = f"; the publication(s) for {lost} lost the missing-value mask of the initial value" if lost else ""
            return (f"output {o}: initial publications {data}, expected {exp} (start {case['start']}, "
                    f"producer info time {h}){note}")
    return _monitor_meta(case, obs)


def _monitor_script(case, obs):
    h = case["helper"]
    prev = None
    for op, r in zip(case["ops"], obs["results"]):
        if op[0] != "connect":
            if r[0] not in ("ok", "NoDataError", "MetaDataError"):
                return f"{op[0]} raised {r[0]}"
            continue
        if r[0] != "status":
            return f"connect raised {r[0]}"
        _, st, snap_in, snap_out = r
        flags = []
        for i, (t, p) in zip(h["ins"], snap_in):
            flags.append(t is not None)
            if case["ins"][i]["pull"]:
                flags.append(p is not None)
        for (hh, ip, dp) in snap_out:
            flags += [hh is not None, ip, dp]
        if prev is None:
            prev = [False] * len(flags)
            k = 0
            for i in h["ins"]:
                k += 1 + (1 if case["ins"][i]["pull"] else 0)
            for o in h["outs"]:
                prev[k + 1] = case["outs"][o]["own"] is not None
                k += 3
        if any(a and not b for a, b in zip(prev, flags)):
            return "a done item became undone"
        grew = sum(flags) > sum(prev)
        if st == "CONNECTED":
            if not all(flags):
                return "CONNECTED with a declared exchange outstanding"
        elif all(flags):
            return f"{st} although every declared exchange is done"
        elif st == "CONNECTING" and not grew:
            return "CONNECTING (progress) but nothing new was exchanged"
        elif st == "CONNECTING_IDLE" and grew:
            return "CONNECTING_IDLE although something new was exchanged"
        prev = flags
    return None


def monitor(case, obs):
    if case["kind"] == "comp":
        return _monitor_comp(case, obs)
    return _monitor_script(case, obs)


def nontrivial(case, obs):
    if case["kind"] == "comp":
        calls = {}
        for e in obs["events"]:
            calls[e[0]] = calls.get(e[0], 0) + 1
        rich = any(i["pull"] or i["rules"] or (i["prov"] and i["prov"][0]) for i in case["ins"]) or \
            any(o["rules"] or (o["prov_info"] and o["prov_info"][0]) or (o["prov_data"] and o["prov_data"][0]) for o in case["outs"])
        return len(case["comps"]) >= 2 and max(calls.values() or [0]) >= 2 and bool(rich)
    sts = [r[1] for r in obs["results"] if r[0] == "status"]
    return "CONNECTING" in sts and "CONNECTING_IDLE" in sts


def distribution(cases, obss):
    from collections import Counter

    kinds = Counter(c["kind"] for c in cases)
    ncomp = Counter(len(c["comps"]) for c in cases if c["kind"] == "comp")
    outcome = Counter((o.get("error") or "connected") for c, o in zip(cases, obss) if c["kind"] == "comp" and "error" in o)
    nstuck = Counter(len(o["stall_names"] or []) for c, o in zip(cases, obss) if c["kind"] == "comp" and o.get("error") == "CircularCoupling")
    st = Counter(e[1] for c, o in zip(cases, obss) if c["kind"] == "comp" and "events" in o for e in o["events"])
    sst = Counter(r[1] if r[0] == "status" else r[0] for c, o in zip(cases, obss) if c["kind"] == "script" and "results" in o for r in o["results"])
    feats = Counter()
    for c in cases:
        if c["kind"] != "comp":
            continue
        feats["pull"] += any(i["pull"] for i in c["ins"])
        feats["in_rules"] += any(i["rules"] for i in c["ins"])
        feats["out_rules"] += any(o["rules"] for o in c["outs"])
        feats["late_producer"] += any(k["time"] != c["start"] for k in c["comps"])
        feats["static_out"] += any(o["static"] for o in c["outs"])
        feats["cache_off"] += any(not k["cache"] for k in c["comps"])
        feats["scale_link"] += any(i["via"] == "scale" for i in c["ins"])
        feats["chain_link"] += any(i["via"] == "chain" for i in c["ins"])
        feats["shared_adapter"] += any(
            a["via"].startswith("shared") and b["via"] == a["via"] and a["src"] == b["src"]
            for x, a in enumerate(c["ins"]) for y, b in enumerate(c["ins"]) if x < y)
        feats["spare_adapter"] += any(o.get("spare") for o in c["outs"])
        feats["masked_payload_published_twice"] += any(
            o.get("masked") and not o["static"] and any(o_ in k["outs"] and k["time"] != c["start"] for k in c["comps"])
            for o_, o in enumerate(c["outs"]))
        feats["push_time_adapter_on_pulled_link"] += any(i["via"] in PUSH_VIAS and i["pull"] for i in c["ins"])
        feats["explicit_earlier_start"] += all(k["time"] > c["start"] for k in c["comps"])
        feats["delay_adapter_on_pulled_link"] += any(_is_delay(i["via"]) and i["pull"] for i in c["ins"])
        feats["self_link"] += any(c["ins"][i]["src"] in k["outs"] for k in c["comps"] for i in k["ins"])
    rounds = Counter(min(len(o["events"]) // max(1, len(c["comps"])), 8) for c, o in zip(cases, obss) if c["kind"] == "comp" and "events" in o)
    return {"kinds": dict(kinds), "components": dict(ncomp), "outcome": dict(outcome), "stuck_components": dict(nstuck),
            "call_status": dict(st), "script_results": dict(sst), "features": dict(feats), "approx_rounds": dict(rounds)}


# ----------------------------------------------------------------------------------------------
# shrinking
# ----------------------------------------------------------------------------------------------
def _remove_comp(case, k):
    c = case["comps"][k]
    if any(sp["src"] in c["outs"] for i, sp in enumerate(case["ins"]) if i not in c["ins"]):
        return None
    imap = {i: n for n, i in enumerate(i for i in range(len(case["ins"])) if i not in c["ins"])}
    omap = {o: n for n, o in enumerate(o for o in range(len(case["outs"])) if o not in c["outs"])}

    def md(ds):
        return [[d[0], imap[d[1]] if d[0] in ("in", "pull") else omap[d[1]]] for d in ds]

    def mr(rs):
        return None if rs is None else [[r[0], imap[r[1]], r[2]] if r[0] == "in" else [r[0], omap[r[1]], r[2]] if r[0] == "out" else r for r in rs]

    new = copy.deepcopy(case)
    new["ins"] = []
    for i, sp in enumerate(case["ins"]):
        if i in imap:
            sp = copy.deepcopy(sp)
            sp["src"] = omap[sp["src"]]
            if sp["prov"]:
                sp["prov"] = [md(sp["prov"][0]), sp["prov"][1]]
            sp["rules"] = mr(sp["rules"])
            new["ins"].append(sp)
    new["outs"] = []
    for o, sp in enumerate(case["outs"]):
        if o in omap:
            sp = copy.deepcopy(sp)
            for key in ("prov_info", "prov_data"):
                if sp[key]:
                    sp[key] = [md(sp[key][0]), sp[key][1]]
            sp["rules"] = mr(sp["rules"])
            new["outs"].append(sp)
    new["comps"] = []
    for j, cc in enumerate(case["comps"]):
        if j != k:
            new["comps"].append({"ins": [imap[i] for i in cc["ins"]], "outs": [omap[o] for o in cc["outs"]],
                                 "cache": cc["cache"], "time": cc["time"]})
    if not new["comps"]:
        return None
    if new["auto_start"]:
        new["auto_start"] = False
    return new


def shrink_candidates(case):
    if case["kind"] == "script":
        ops = case["ops"]
        for i in range(len(ops) - 1, -1, -1):
            c = copy.deepcopy(case)
            c["ops"] = ops[:i] + ops[i + 1:]
            yield c
        return
    for k in range(len(case["comps"])):
        c = _remove_comp(case, k)
        if c is not None:
            yield c
    for i, sp in enumerate(case["ins"]):
        if sp["pull"] and not any(["pull", i] in (x or [[]])[0] for o in case["outs"] for x in (o["prov_info"], o["prov_data"])) \
                and not any(["pull", i] in (x["prov"] or [[]])[0] for x in case["ins"]):
            c = copy.deepcopy(case)
            c["ins"][i]["pull"] = False
            yield c
        if sp["via"] != "direct":
            c = copy.deepcopy(case)
            c["ins"][i]["via"] = "direct"
            yield c
    for o, sp in enumerate(case["outs"]):
        if sp.get("spare"):
            c = copy.deepcopy(case)
            c["outs"][o]["spare"] = False
            yield c
        for key in ("prov_info", "prov_data"):
            if sp[key] and sp[key][0]:
                for j in range(len(sp[key][0])):
                    c = copy.deepcopy(case)
                    c["outs"][o][key][0].pop(j)
                    yield c
