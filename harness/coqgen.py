"""Python value -> Gallina term text (the emitter of the correspondence check)."""
from fractions import Fraction


def Z(n):
    n = int(n)
    return f"({n})%Z"


def N(n):
    n = int(n)
    assert 0 <= n < 5000, "nat literals must stay small"
    return f"{n}%nat"


def B(b):
    return "true" if b else "false"


def L(items):
    items = list(items)
    return "[" + "; ".join(items) + "]"


def P(*items):
    return "(" + ", ".join(items) + ")"


def Some(x):
    return f"(Some {x})"


NONE = "None"


def Opt(x, f):
    return NONE if x is None else Some(f(x))


def C(name, *args):
    if not args:
        return name
    return "(" + name + " " + " ".join(args) + ")"


def Q(fr):
    fr = Fraction(fr)
    return f"(Qmake ({fr.numerator})%Z {fr.denominator}%positive)"


def S(s):
    """A Coq string literal."""
    return '"' + s.replace('"', '""') + '"%string'
