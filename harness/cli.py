import argparse
import importlib
import os
import sys

from . import core


def main():
    ap = argparse.ArgumentParser()
    ap.add_argument("pid")
    ap.add_argument("--tier", default=os.environ.get("VERIF_TIER", "quick"), choices=["quick", "thorough"])
    ap.add_argument("--seed", type=int, default=int(os.environ.get("VERIF_SEED", "20260927")))
    ap.add_argument("--replay", default=None)
    a = ap.parse_args()
    try:
        mod = importlib.import_module(f"harness.props.{a.pid.lower()}")
        rc = core.check_property(mod, a.tier, a.seed, a.replay)
    except SystemExit:
        raise
    except BaseException:  # noqa: the interface wants a VIOLATION line, not a traceback, when the harness cannot run
        import traceback
        txt = traceback.format_exc()
        sys.stderr.write(txt)
        rc = core.crash_report(a.pid.upper(), a.tier, a.seed, txt)
    sys.exit(rc)


if __name__ == "__main__":
    main()
