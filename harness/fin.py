"""Helpers shared by the implementation drivers (run the REAL finam from /repo/src)."""
import logging
import os
import warnings
from datetime import datetime, timedelta

warnings.filterwarnings("ignore")
os.environ.setdefault("MPLBACKEND", "Agg")

import numpy as np  # noqa: E402

import finam as fm  # noqa: E402
from finam import errors as ferr  # noqa: E402

assert os.path.realpath(fm.__file__).startswith(os.path.realpath(os.environ.get("VERIF_REPO", "/repo")) + "/src/"), fm.__file__

logging.disable(logging.CRITICAL)

EPOCH = datetime(2000, 1, 1)
US = timedelta(microseconds=1)


def T(us):
    """integer microseconds since the case epoch -> datetime"""
    return EPOCH + timedelta(microseconds=int(us))


def D(us):
    return timedelta(microseconds=int(us))


def us_of(t):
    """datetime -> integer microseconds since the epoch (exact)"""
    if t is None:
        return None
    d = t - EPOCH
    return (d.days * 86400 + d.seconds) * 1000000 + d.microseconds


def dus_of(d):
    return (d.days * 86400 + d.seconds) * 1000000 + d.microseconds


ERR_CLASSES = [
    ("TimeError", ferr.FinamTimeError),
    ("NoDataError", ferr.FinamNoDataError),
    ("StaticDataError", ferr.FinamStaticDataError),
    ("MetaDataError", ferr.FinamMetaDataError),
    ("DataError", ferr.FinamDataError),
    ("CircularCoupling", ferr.FinamCircularCouplingError),
    ("ConnectError", ferr.FinamConnectError),
    ("StatusError", ferr.FinamStatusError),
    ("LogError", ferr.FinamLogError),
]


def err_class(e):
    """Map an exception to a small enum (never message text)."""
    for name, cls in ERR_CLASSES:
        if isinstance(e, cls):
            return name
    return type(e).__name__


def magnitude(x):
    try:
        return x.magnitude
    except AttributeError:
        return x


def scalar_of(x):
    m = np.asarray(magnitude(x))
    return float(m.reshape(-1)[0])
