import warnings; warnings.filterwarnings("ignore")
import logging; logging.disable(logging.CRITICAL)
from datetime import datetime, timedelta
import finam as fm
T0=datetime(2000,1,1)
class TC(fm.TimeComponent):
    def __init__(self,name,step,ins,outs,start=T0):
        super().__init__(); self._name=name; self._step=timedelta(days=step); self._ins=ins; self._outs=outs; self._time=start; self.log=[]
    @property
    def next_time(self): return self.time+self._step
    def _initialize(self):
        for i in self._ins: self.inputs.add(name=i,time=self.time,grid=fm.NoGrid())
        for o in self._outs: self.outputs.add(name=o,time=self.time,grid=fm.NoGrid())
        self.create_connector(pull_data=list(self._ins))
    def _connect(self,st):
        self.try_connect(st,push_data={o:1.0 for o in self._outs})
    def _validate(self): pass
    def _update(self):
        self._time+=self._step
        for i in self._ins: self.inputs[i].pull_data(self.time)
        for o in self._outs: self.outputs[o].push_data(1.0,self.time)
        self.log.append(self.time)
    def _finalize(self): pass
class PC(fm.Component):
    def __init__(self,name,ins,outs):
        super().__init__(); self._name=name; self._ins=ins; self._outs=outs
    def _initialize(self):
        for i in self._ins: self.inputs.add(name=i,time=None,grid=fm.NoGrid())
        for o in self._outs: self.outputs.add(fm.CallbackOutput(callback=self._get,name=o,time=T0,grid=fm.NoGrid()))
        self.create_connector()
    def _connect(self,st):
        self.try_connect(st)
    def _get(self,caller,time):
        s=0
        for i in self._ins: s+=fm.data.get_magnitude(self.inputs[i].pull_data(time))
        return s
    def _validate(self): pass
    def _update(self): pass
    def _finalize(self): pass
B=TC("B",1,[],["o"]); P=PC("P",["i"],["o1","o2"]); A=TC("A",3,["i1","i2"],[])
comp=fm.Composition([A,P,B],print_log=False)
B.outputs["o"]>>P.inputs["i"]; P.outputs["o1"]>>A.inputs["i1"]; P.outputs["o2"]>>A.inputs["i2"]
try:
    comp.run(end_time=T0+timedelta(days=10)); print("OK",len(A.log),len(B.log))
except Exception as e: print("ERR",type(e).__name__,str(e)[:300])
