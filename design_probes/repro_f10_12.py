import warnings; warnings.filterwarnings("ignore")
import logging; logging.disable(logging.CRITICAL)
from datetime import datetime, timedelta
import numpy as np, finam as fm
t=datetime(2000,1,1)
# F10
g=fm.UniformGrid((4,3),order="F"); m=np.array([[True,True],[False,False],[False,False]])
r=fm.data.prepare(np.arange(6.0), fm.Info(t,grid=g,mask=m,units="m")).magnitude.mask[0]
print("F10", "REPRODUCED" if not np.array_equal(r,m) else "not reproduced")
r2=fm.data.prepare(np.arange(6.0)*fm.UNITS("m"), fm.Info(t,grid=g,mask=m,units="m")).magnitude.mask[0]
print("F10q", "REPRODUCED" if not np.array_equal(r2,m) else "not reproduced")
# F11
G=fm.UniformGrid((4,3)); mA=np.array([[True,False],[False,False],[False,False]]); mB=np.array([[False,False],[False,False],[False,True]])
out=fm.Output(name="o"); inp=fm.Input(name="i"); out>>inp; inp.ping(); out.push_info(fm.Info(t,grid=G,mask=mA))
try:
    inp.exchange_info(fm.Info(t,grid=None,mask=mB)); print("F11 REPRODUCED (accepted)", )
except fm.errors.FinamMetaDataError: print("F11 not reproduced")
out=fm.Output(name="o"); inp=fm.Input(name="i"); out>>inp; inp.ping(); out.push_info(fm.Info(t,grid=None,mask=np.zeros((2,3),bool)))
try:
    inp.exchange_info(fm.Info(t,grid=G,mask=np.zeros((3,2),bool))); print("F11b accepted?!")
except fm.errors.FinamMetaDataError: print("F11b not reproduced")
except ValueError as e: print("F11b REPRODUCED ValueError")
# F12
class Prod(fm.TimeComponent):
    def __init__(s): super().__init__(); s._time=t
    @property
    def next_time(s): return s.time+timedelta(days=1)
    def _initialize(s):
        s.outputs.add(name="v",time=t,grid=fm.NoGrid(),units="m"); s.outputs.add(name="w",time=t,grid=fm.NoGrid(),units=""); s.create_connector()
    def _connect(s,st): s.try_connect(st,push_data={"v":1.0,"w":0.5})
    def _validate(s): pass
    def _update(s): s._time+=timedelta(days=1); s.outputs["v"].push_data(1.0,s.time); s.outputs["w"].push_data(0.5,s.time)
    def _finalize(s): pass
p=Prod(); ws=fm.components.WeightedSum(["A"]); c1=fm.components.DebugConsumer({"In":fm.Info(None,grid=fm.NoGrid(),units="m"),"In2":fm.Info(None,grid=fm.NoGrid(),units="m")},start=t,step=timedelta(days=1))
comp=fm.Composition([p,ws,c1],print_log=False)
p.outputs["v"]>>ws.inputs["A"]; p.outputs["w"]>>ws.inputs["A_weight"]; ws.outputs["WeightedSum"]>>c1.inputs["In"]; ws.outputs["WeightedSum"]>>c1.inputs["In2"]
try:
    comp.run(end_time=t+timedelta(days=3)); print("F12 not reproduced")
except fm.errors.FinamDataError as e: print("F12 REPRODUCED", str(e)[:60])
