import json
from harness import schedlib as S
D=S.DAY
case={"comps":[
 {"kind":"T","start":0,"steps":[5*D],"initpull":False,"nout":0,"inputs":[{"src":[1,0],"chain":[]}]},
 {"kind":"P","nout":1,"inputs":[{"src":[2,0],"chain":[]}]},
 {"kind":"T","start":0,"steps":[1*D],"initpull":False,"nout":1,"inputs":[{"src":[1,0],"chain":[["fixed",10*D]]}]},
],"end":10*D}
o=S.run_case(case); print(o["phase"],o["outcome"],o["times"])
case["comps"]=case["comps"][1:]; 
case["comps"][0]["inputs"][0]["src"]=[1,0]; case["comps"][1]["inputs"][0]["src"]=[0,0]
o=S.run_case(case); print(o["phase"],o["outcome"],o["times"])
