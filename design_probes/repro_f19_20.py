import warnings; warnings.filterwarnings("ignore")
import logging; logging.disable(logging.CRITICAL)
from datetime import datetime, timedelta
import finam as fm
from finam.tools.connect_helper import FromValue
t=datetime(2000,1,1)
class X(fm.TimeComponent):
    def __init__(s): super().__init__(); s._time=t
    @property
    def next_time(s): return s.time+timedelta(days=1)
    def _initialize(s):
        s.inputs.add(name="In"); s.create_connector(in_info_rules={"In":[FromValue("time",t),FromValue("grid",fm.NoGrid())]},cache=False)
    def _connect(s,st): s.try_connect(st)
    def _validate(s): pass
    def _update(s): s._time+=timedelta(days=1)
    def _finalize(s): pass
class S(fm.TimeComponent):
    def __init__(s, outs): super().__init__(); s._time=t; s.outs=outs
    @property
    def next_time(s): return s.time+timedelta(days=1)
    def _initialize(s):
        for n,st in s.outs: s.outputs.add(name=n,static=st)
        s.create_connector()
    def _connect(s,st):
        s.try_connect(st,push_infos={n:fm.Info(None if stc else t,grid=fm.NoGrid()) for n,stc in s.outs},push_data={n:1.0 for n,_ in s.outs})
    def _validate(s): pass
    def _update(s): s._time+=timedelta(days=1)
    def _finalize(s): pass
for order in (0,1):
    x=X(); s=S([("Out",False)]); comps=[x,s] if order==0 else [s,x]
    c=fm.Composition(comps,print_log=False); s.outputs["Out"]>>x.inputs["In"]
    try: c.connect(t); print("F19 order",order,"connected")
    except Exception as e: print("F19 order",order,"REPRODUCED" if isinstance(e,fm.errors.FinamCircularCouplingError) else repr(e)[:100])
for outs in ([("Out",False),("St",True)],[("St",True),("Out",False)]):
    s=S(outs); k=fm.components.DebugConsumer({"A":fm.Info(None,grid=fm.NoGrid())},start=t,step=timedelta(days=1))
    c=fm.Composition([s,k],print_log=False); s.outputs["Out"]>>k.inputs["A"]; 
    try: c.connect(t); print("F20",[o[0] for o in outs],"connected")
    except Exception as e: print("F20",[o[0] for o in outs],"REPRODUCED" if isinstance(e,fm.errors.FinamTimeError) else repr(e)[:200])
