exec(open('probe_pull2.py').read().split("B=TC(")[0])
# true cycle through a pull-based component: A(time) -> P(pull) -> A
A=TC("A",3,["i"],["o"]); P=PC("P",["i"],["o1"])
comp=fm.Composition([A,P],print_log=False)
A.outputs["o"]>>P.inputs["i"]; P.outputs["o1"]>>A.inputs["i"]
try:
    comp.run(end_time=T0+timedelta(days=10)); print("OK",len(A.log))
except Exception as e: print("ERR",type(e).__name__,str(e)[:200])
# delayed version
A=TC("A",3,["i"],["o"]); P=PC("P",["i"],["o1"])
comp=fm.Composition([A,P],print_log=False)
A.outputs["o"]>>fm.adapters.DelayFixed(timedelta(days=3))>>P.inputs["i"]; P.outputs["o1"]>>A.inputs["i"]
try:
    comp.run(end_time=T0+timedelta(days=10)); print("OK",len(A.log))
except Exception as e: print("ERR",type(e).__name__,str(e)[:200])
