import warnings; warnings.filterwarnings("ignore")
import logging; logging.disable(logging.CRITICAL)
from datetime import datetime, timedelta
import finam as fm
t0=datetime(2000,1,1)
class M(fm.TimeComponent):
    def __init__(s,start,outs,ins): super().__init__(); s._time=start; s.outs=outs; s.ins=ins
    @property
    def next_time(s): return s.time+timedelta(days=1)
    def _initialize(s):
        for n,st in s.outs: s.outputs.add(name=n,static=st,time=None if st else s.time,grid=fm.NoGrid())
        for n in s.ins: s.inputs.add(name=n,time=s.time,grid=fm.NoGrid())
        s.create_connector()
    def _connect(s,st): s.try_connect(st,push_data={n:1.0 for n,_ in s.outs})
    def _validate(s): pass
    def _update(s):
        s._time+=timedelta(days=1)
        for n in s.ins: s.inputs[n].pull_data(s.time)
        for n,st in s.outs:
            if not st: s.outputs[n].push_data(1.0,s.time)
    def _finalize(s): pass
a=M(t0+timedelta(days=2),[("state",False),("param",True)],[]); b=M(t0,[],["p"])
c=fm.Composition([a,b],print_log=False); a.outputs["param"]>>b.inputs["p"]
try: c.run(start_time=t0,end_time=t0+timedelta(days=4)); print("F22 not reproduced")
except fm.errors.FinamTimeError as e: print("F22 REPRODUCED", str(e)[:60])
