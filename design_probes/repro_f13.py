import warnings; warnings.filterwarnings("ignore")
import logging; logging.disable(logging.CRITICAL)
from datetime import datetime
import numpy as np, finam as fm
t=datetime(2000,1,1); G=fm.UniformGrid((4,3))
def ex(om, im):
    out=fm.Output(name="o"); inp=fm.Input(name="i"); out>>inp; inp.ping(); out.push_info(fm.Info(t,grid=G,mask=om))
    try:
        inp.exchange_info(fm.Info(t,grid=G,mask=im)); return ("ok", inp.info.mask, out.info.mask)
    except fm.errors.FinamMetaDataError as e: return ("MetaDataError",)
r=ex(None,None); print("F13", "REPRODUCED" if r[0]=="ok" and r[1] is None else "not reproduced", r)
print(ex(None, fm.Mask.FLEX)); print(ex(None, fm.Mask.NONE)); print(ex(fm.Mask.NONE, None)); m=np.zeros((3,2),bool); m[0,0]=True; print(ex(None,m))
