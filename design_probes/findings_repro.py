"""Design-phase evidence for DESIGN.md section 8 (findings F1-F8).

NOT part of the verification machinery.  Reproduces each preliminary finding
against the real finam in /repo through public API only.  Run:

    PYTHONPATH=/repo/src /venv/bin/python /verif/design_probes/findings_repro.py

Prints one line per finding: "F<k> REPRODUCED ..." or "F<k> not reproduced ...".
"""
import logging
import os
import sys
import tempfile
from datetime import datetime, timedelta

import numpy as np

import finam as fm

logging.disable(logging.CRITICAL)
T0 = datetime(2000, 1, 1)
D = lambda d: timedelta(days=d)


def outcome(fn):
    try:
        return "ok", fn()
    except Exception as e:  # noqa: BLE001 - probe script
        return type(e).__name__, str(e).splitlines()[0][:90]


def ring(delays):
    """A(step 10d) <-> B(step 1d), delay adapters on the link B.Out -> A.In."""
    mk = lambda name, step: fm.components.CallbackComponent(
        {"In": fm.Info(None, grid=fm.NoGrid())}, {"Out": fm.Info(None, grid=fm.NoGrid())},
        lambda inp, t: {"Out": 1.0}, T0, D(step), initial_pull=False).with_name(name)
    a, b = mk("A", 10), mk("B", 1)
    comp = fm.Composition([a, b], print_log=False)
    a["Out"] >> b["In"]
    x = b["Out"]
    for d in delays:
        x = x >> fm.adapters.DelayFixed(D(d))
    x >> a["In"]
    comp.run(end_time=T0 + D(40))


def f1():
    one = outcome(lambda: ring([11]))[0]
    split = outcome(lambda: ring([5, 6]))[0]
    return one == "ok" and split == "FinamCircularCouplingError", f"delay 11d: {one}; delay 5d+6d: {split}"


def chain_run(adapters, step_src=3, step_dst=2):
    src = fm.components.CallbackGenerator(
        {"Out": (lambda t: float(t.toordinal()), fm.Info(None, grid=fm.NoGrid()))}, T0, D(step_src))
    dst = fm.components.CallbackComponent(
        {"In": fm.Info(None, grid=fm.NoGrid())}, {}, lambda inp, t: {}, T0, D(step_dst))
    comp = fm.Composition([src, dst], print_log=False)
    x = src["Out"]
    for a in adapters:
        x = x >> a
    x >> dst["In"]
    comp.run(end_time=T0 + D(20))


def f2():
    bad = outcome(lambda: chain_run([fm.adapters.DelayFixed(D(4)), fm.adapters.LinearTime()]))
    good = outcome(lambda: chain_run([fm.adapters.LinearTime(), fm.adapters.DelayFixed(D(4))]))
    return bad[0] == "FinamTimeError" and good[0] == "ok", f"Delay>>Linear: {bad}; Linear>>Delay: {good[0]}"


def spill_run(adapter, limit, loc, masked=False):
    g = fm.UniformGrid((4, 3))
    m = np.array([[True, False], [False, False], [False, True]])

    def gen(t):
        d = np.arange(6.0).reshape(g.data_shape) + t.day
        return np.ma.array(d, mask=m) if masked else d

    mask = m if masked else fm.Mask.FLEX
    src = fm.components.CallbackGenerator(
        {"Out": (gen, fm.Info(None, grid=g, units="m", mask=mask))}, T0, D(1))
    got = []
    dst = fm.components.CallbackComponent(
        {"In": fm.Info(None, grid=g, units="m", mask=mask)}, {},
        lambda inp, t: got.append(np.ma.filled(inp["In"].magnitude, -9).copy()) or {}, T0, timedelta(hours=12))
    comp = fm.Composition([src, dst], print_log=False, slot_memory_limit=limit, slot_memory_location=loc)
    if adapter is None:
        src["Out"] >> dst["In"]
    else:
        src["Out"] >> adapter >> dst["In"]
    comp.run(end_time=T0 + D(3))
    return got


def f3():
    with tempfile.TemporaryDirectory() as d:
        r = outcome(lambda: spill_run(fm.adapters.LinearTime(), 0, d))
    return r[0] == "FinamDataError", f"LinearTime, limit 0: {r}"


def f4():
    with tempfile.TemporaryDirectory() as d:
        r = outcome(lambda: spill_run(fm.adapters.NextTime(), 0, d))
        left = os.listdir(d)
    return r[0] == "ok" and len(left) > 0, f"NextTime, limit 0: {r[0]}, files left after finalize: {len(left)}"


def f5():
    with tempfile.TemporaryDirectory() as d:
        r = outcome(lambda: spill_run(None, 0, d, masked=True))
    return r[0] == "NotImplementedError", f"masked payload, limit 0: {r}"


def f6():
    g = fm.UniformGrid((4, 3))
    before = tuple(int(x) for x in g.data_shape)
    g.data_location = fm.Location.POINTS
    after = tuple(int(x) for x in g.data_shape)
    fresh = fm.UniformGrid((4, 3), data_location=fm.Location.POINTS)
    want = tuple(int(x) for x in fresh.data_shape)
    return after != want, f"data_shape read {before}, set POINTS, read {after}, expected {want}"


def f7():
    a = fm.UniformGrid((4, 3))
    b = fm.UniformGrid((4, 3), axes_increase=[True, False])

    def run():
        src = fm.components.CallbackGenerator(
            {"Out": (lambda t: np.arange(6.0).reshape(a.data_shape), fm.Info(None, grid=a, units="m"))}, T0, D(1))
        dst = fm.components.CallbackComponent(
            {"In": fm.Info(None, grid=b, units="m")}, {}, lambda inp, t: {}, T0, D(1))
        comp = fm.Composition([src, dst], print_log=False)
        src["Out"] >> dst["In"]
        comp.run(end_time=T0 + D(2))

    r = outcome(run)
    return a.compatible_with(b) and r[0] != "ok", f"compatible grids, different layout, over a link: {r}"


def f8():
    us = lambda n: timedelta(microseconds=n)
    out = fm.Output("o", fm.Info(T0, grid=fm.NoGrid()))
    inp = fm.Input("i", fm.Info(T0, grid=fm.NoGrid()))
    out >> inp
    inp.ping()
    inp.exchange_info()
    out.push_data(0.0, T0)
    out.push_data(1.0, T0 + us(5))
    got = float(inp.pull_data(T0 + us(2)).magnitude[0])
    return got == 1.0, f"publications at 0us (0.0) and 5us (1.0); request 2us delivered {got}"


if __name__ == "__main__":
    for k, f in enumerate([f1, f2, f3, f4, f5, f6, f7, f8], start=1):
        hit, msg = f()
        print(f"F{k} {'REPRODUCED' if hit else 'not reproduced'}: {msg}")
    sys.exit(0)
